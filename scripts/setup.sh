#!/bin/bash
# Build the overlay venv used by every check (offline; wheels from /opt/veriftools/wheels).
set -e
cd /verif
if [ ! -x .venv/bin/python ]; then
  /venv/bin/python -m venv .venv
fi
SP=$(.venv/bin/python -c "import sysconfig; print(sysconfig.get_paths()['purelib'])")
echo "import site; site.addsitedir('/venv/lib/python3.12/site-packages')" > "$SP/_base_venv.pth"
.venv/bin/python -c "import z3" 2>/dev/null || .venv/bin/pip install -q --no-index --find-links /opt/veriftools/wheels z3-solver
.venv/bin/python -c "import cvc5" 2>/dev/null || .venv/bin/pip install -q --no-index --find-links /opt/veriftools/wheels cvc5 || true
.venv/bin/python -c "import crosshair" 2>/dev/null || .venv/bin/pip install -q --no-index --find-links /opt/veriftools/wheels crosshair-tool || true
.venv/bin/python -c "import z3, taskiq, pydantic; assert taskiq.__file__.startswith('/repo/'), taskiq.__file__; print('vt venv ok: z3', z3.get_version_string())"
