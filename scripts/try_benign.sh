#!/bin/bash
# usage: scripts/try_benign.sh <patch> <Cxx>... : apply a behaviour-preserving patch, every listed check must still exit 0
P="$1"; shift
cd /repo || exit 9
[ -z "$(git status --porcelain)" ] || { echo "repo not clean"; exit 9; }
git apply "$P" || { echo "patch does not apply"; exit 9; }
cd /verif
for id in "$@"; do ./check $id quick > /tmp/benign_$id.log 2>&1; echo "$(basename $P) $id exit=$? $(grep -E 'VIOLATION|INCONCLUSIVE' /tmp/benign_$id.log | head -2 | tr '\n' ' ')"; done
git -C /repo checkout -- .
