#!/bin/bash
# usage: scripts/try_patch_wt.sh <abs patch> <Cxx>...
# Runs the quick checks of the listed properties on a scratch worktree of /repo with the patch applied
# (VT_REPO / VT_OUT overrides), so that several patches can be tried in parallel and /repo stays untouched.
P="$1"; shift
TAG=$(echo "$P" | md5sum | cut -c1-8)
WT=/tmp/vtwt_$TAG; OUT=/tmp/vtout_$TAG
git -C /repo worktree add -q "$WT" HEAD || exit 9
( cd "$WT" && git apply "$P" ) || { echo "$P does not apply"; git -C /repo worktree remove --force "$WT"; exit 9; }
mkdir -p "$OUT"
for id in "$@"; do
  VT_REPO="$WT" VT_OUT="$OUT" timeout 3000 /verif/check $id ${TIER:-quick} > "$OUT/$id.log" 2>&1; rc=$?
  echo "$P $id exit=$rc $(grep -E 'VIOLATION|INCONCLUSIVE|KNOWN-FINDING' "$OUT/$id.log" | head -3 | cut -c1-160 | tr '\n' ' ')"
  if [ $rc -ne 0 ]; then mkdir -p /tmp/vt_alarm; cp "$OUT/$id.log" /tmp/vt_alarm/${TAG}_$id.log; cp -r "$OUT/replays" /tmp/vt_alarm/${TAG}_replays 2>/dev/null; fi
done
git -C /repo worktree remove --force "$WT"; rm -rf "$OUT"
