#!/usr/bin/env python3
"""Run the quick checks that depend on the files a behaviour-preserving patch touches, on a scratch worktree
(scripts/try_patch_wt.sh), for every patch under seeded/benign (or the ones named). Every check must exit 0.
usage: scripts/benign_matrix.py [-j N] [patch...]   -> seeded/benign/MATRIX.json"""
import concurrent.futures as cf, glob, json, os, re, subprocess, sys

DEPENDS = {
    "taskiq/receiver/receiver.py": "C01 C02 C03 C04 C05 C06 C07 C08 C10 C11 C12",
    "taskiq/receiver/params_parser.py": "C08",
    "taskiq/kicker.py": "C08 C09 C10 C11 C16",
    "taskiq/labels.py": "C07 C08 C09 C11",
    "taskiq/message.py": "C07 C08 C09 C11",
    "taskiq/context.py": "C06 C09",
    "taskiq/acks.py": "C02 C05",
    "taskiq/middlewares/retry_middleware.py": "C09 C11",
    "taskiq/cli/scheduler/run.py": "C13 C14 C15",
    "taskiq/scheduler/scheduler.py": "C15 C16",
    "taskiq/schedule_sources/label_based.py": "C15 C16",
    "taskiq/cli/worker/process_manager.py": "C17 C18",
    "taskiq/cli/worker/run.py": "C05 C17 C18",
    "taskiq/serialization.py": "C07 C19 C20",
    "taskiq/result/v1.py": "C02 C07 C19 C20",
    "taskiq/result/v2.py": "C02 C07 C19 C20",
}
ALL = " ".join(f"C{i:02d}" for i in range(1, 21))


def checks_for(patch):
    ids = set()
    for line in open(patch):
        m = re.match(r"diff --git a/(\S+)", line)
        if m:
            ids.update(DEPENDS.get(m.group(1), ALL).split())
    return sorted(ids)


def run(patch):
    ids = checks_for(patch)
    out = subprocess.run(["/verif/scripts/try_patch_wt.sh", os.path.abspath(patch), *ids], capture_output=True, text=True).stdout
    rows = []
    for line in out.splitlines():
        m = re.search(r" (C\d\d) exit=(\d+)(.*)", line)
        if m:
            rows.append({"patch": os.path.relpath(patch, "/verif/seeded/benign"), "check": m.group(1), "exit": int(m.group(2)), "note": m.group(3).strip()})
    if not rows:
        rows.append({"patch": patch, "check": "-", "exit": 9, "note": out[-200:]})
    return rows


def main():
    args = sys.argv[1:]
    j = 1
    if args[:1] == ["-j"]:
        j = int(args[1]); args = args[2:]
    patches = args or sorted(glob.glob("/verif/seeded/benign/*.diff") + glob.glob("/verif/seeded/benign/agents/*.diff"))
    path = "/verif/seeded/benign/MATRIX.json"
    old = json.load(open(path)) if os.path.exists(path) else []
    res = []
    with cf.ThreadPoolExecutor(j) as ex:
        for rows in ex.map(run, patches):
            for r in rows:
                print(r, flush=True)
            res += rows
    done = {r["patch"] for r in res}
    json.dump([r for r in old if r["patch"] not in done] + res, open(path, "w"), indent=1)
    bad = [r for r in res if r["exit"] != 0]
    print(f"{len(res)} runs, {len(bad)} not silent")
    return 1 if bad else 0


sys.exit(main())
