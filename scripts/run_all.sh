#!/bin/bash
# run every claimed check (tier $1, default quick) and print a summary
TIER="${1:-quick}"
cd /verif
for id in $(python3 -c "import json; print(' '.join(c['property_id'] for c in json.load(open('MANIFEST.json'))['checks']))"); do
  s=$(date +%s)
  out=$(./check $id $TIER 2>&1); rc=$?
  e=$(date +%s)
  echo "$id rc=$rc $((e-s))s $(echo "$out" | grep -c KNOWN-FINDING) known | $(echo "$out" | grep -E '^C[0-9]+ \[' | tail -1)"
  if [ $rc -ne 0 ]; then echo "$out" | tail -5 | cut -c1-300; fi
done
