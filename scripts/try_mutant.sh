#!/bin/bash
# usage: scripts/try_mutant.sh <patch.diff> <Cxx> [tier]   -- apply to /repo, run the check, revert
P="$1"; ID="$2"; TIER="${3:-quick}"
cd /repo || exit 9
if [ -n "$(git status --porcelain)" ]; then echo "repo not clean"; exit 9; fi
git apply "$P" || { echo "patch does not apply"; exit 9; }
cd /verif && ./check "$ID" "$TIER"; rc=$?
git -C /repo checkout -- . 
echo "mutant-exit=$rc"
exit $rc
