#!/usr/bin/env python3
"""Regenerate /verif/MANIFEST.json from the property modules that exist under vt/props."""
import importlib
import json
import os
import sys

sys.path.insert(0, "/verif")
ALL = [f"C{i:02d}" for i in range(1, 21)]
NA_REASONS = json.load(open("/verif/scripts/not_applicable.json"))
checks, na = [], []
for pid in ALL:
    path = f"/verif/vt/props/{pid}.py"
    if not os.path.exists(path) or pid in NA_REASONS.get("_force", []):
        na.append({"property_id": pid, "reason": NA_REASONS.get(pid, "no solver-based check built yet (work in progress; see DESIGN.md section 4)")})
        continue
    src = open(path).read()
    ns = {}
    # read the static metadata without importing z3
    import ast
    tree = ast.parse(src)
    meta = {}
    for node in tree.body:
        if isinstance(node, ast.Assign) and len(node.targets) == 1 and isinstance(node.targets[0], ast.Name):
            name = node.targets[0].id
            if name in ("ID", "LEVEL", "TECHNIQUE", "EXPLANATION", "ASSUMPTIONS", "TRUSTED", "LEVEL_TEXT", "DESIGN_REF"):
                try:
                    meta[name] = ast.literal_eval(node.value)
                except Exception:
                    pass
    checks.append({
        "property_id": pid,
        "quick_cmd": f"./check {pid} quick",
        "thorough_cmd": f"./check {pid} thorough",
        "evidence_file": f"/verif/evidence/{pid}.json",
        "replay_cmd_template": "./check replay {path}",
        "engine": "vt.sym",
        "level_claimed": {
            "category": meta.get("LEVEL", "other"),
            "text": meta.get("LEVEL_TEXT", meta.get("EXPLANATION", "")),
            "design_ref": meta.get("DESIGN_REF", f"DESIGN.md section 4, {pid}"),
        },
        "level_note": "Assumes: " + "; ".join(meta.get("ASSUMPTIONS", [])) + ". Trusted: " + "; ".join(meta.get("TRUSTED", [])),
        "technique": meta.get("TECHNIQUE", "path-wise symbolic execution with z3"),
    })
manifest = {
    "version": 1,
    "setup_cmd": "bash /verif/scripts/setup.sh",
    "hooks": {
        "guard": "TASKIQ_VERIF",
        "enable": "no source hooks are needed: models are injected by re-executing module source in a patched namespace (vt.world); the guard name is reserved",
        "baseline_off_cmd": "cd /repo && /venv/bin/python -m pytest -ra -q -p no:cacheprovider --timeout=900 --continue-on-collection-errors",
        "source_commits": [],
        "add_only": True,
    },
    "engines": [
        {"name": "vt.sym", "path": "/verif/vt/sym.py", "serves_properties": [c["property_id"] for c in checks],
         "kind_free_text": "path-wise symbolic execution of the real /repo byte code with z3-backed proxy values (decision replay, incremental solver), "
                           "library models injected by re-executing module source (vt.world); counterexamples re-run on the unmodified code in concrete mode"},
    ],
    "checks": checks,
    "not_applicable": na,
    "notes": "Exit codes: 0 holds on everything explored; 1 VIOLATION (reproduced on the real code); 2 inconclusive (never reported as pass). "
             "Known findings: /verif/known_findings.json. See DESIGN.md.",
}
json.dump(manifest, open("/verif/MANIFEST.json", "w"), indent=1)
print("checks:", [c["property_id"] for c in checks], "na:", [n["property_id"] for n in na])
