#!/usr/bin/env python3
"""Run each seeded change under /verif/seeded against the quick check of its property, on a scratch worktree of
/repo with the change applied (VT_REPO / VT_OUT overrides of vt.world / vt.run; /repo itself is not touched).
Writes /verif/seeded/MATRIX.json and updates each meta.json's detected_by.
usage: scripts/seed_matrix.py [-j N] [Cxx | Cxx/name ...]"""
import concurrent.futures as cf
import glob
import hashlib
import json
import os
import shutil
import subprocess
import sys

args = sys.argv[1:]
jobs = 1
if args[:1] == ["-j"]:
    jobs = int(args[1]); args = args[2:]


def wanted(pid, name):
    return not args or pid in args or f"{pid}/{name}" in args


def run(meta_path):
    d = os.path.dirname(meta_path)
    meta = json.load(open(meta_path))
    pid, name = meta["property"], meta["name"]
    tag = hashlib.md5(d.encode()).hexdigest()[:8]
    wt, out = f"/tmp/vtwt_{tag}", f"/tmp/vtout_{tag}"
    subprocess.run(["git", "-C", "/repo", "worktree", "add", "-q", wt, "HEAD"], check=True)
    try:
        ap = subprocess.run(["git", "-C", wt, "apply", os.path.join(d, "patch.diff")], capture_output=True, text=True)
        if ap.returncode != 0:
            return {"seed": f"{pid}/{name}", "applies": False, "note": ap.stderr[:200]}
        env = dict(os.environ, VT_REPO=wt, VT_OUT=out)
        p = subprocess.run(["/verif/check", pid, "quick"], capture_output=True, text=True, timeout=3000, env=env)
        sigs = [l.split("signature:")[1].strip() for l in p.stdout.splitlines() if "signature:" in l]
        row = {"seed": f"{pid}/{name}", "applies": True, "check": pid, "exit": p.returncode, "signatures": sigs[:4]}
        meta["detected_by"] = {"check": pid, "tier": "quick", "exit": row["exit"], "signatures": row["signatures"]}
        json.dump(meta, open(meta_path, "w"), indent=1)
        return row
    finally:
        subprocess.run(["git", "-C", "/repo", "worktree", "remove", "--force", wt])
        shutil.rmtree(out, ignore_errors=True)


metas = [m for m in sorted(glob.glob("/verif/seeded/C*/*/meta.json")) if wanted(*m.split("/")[-3:-1])]
rows = []
with cf.ThreadPoolExecutor(jobs) as ex:
    for row in ex.map(run, metas):
        print(row, flush=True)
        rows.append(row)
old = []
if os.path.exists("/verif/seeded/MATRIX.json"):
    done = {r["seed"] for r in rows}
    old = [r for r in json.load(open("/verif/seeded/MATRIX.json")) if r["seed"] not in done]
json.dump(sorted(old + rows, key=lambda r: r["seed"]), open("/verif/seeded/MATRIX.json", "w"), indent=1)
missed = [r["seed"] for r in rows if r.get("exit") != 1]
print(f"{len(rows)} seeds, not detected: {missed}")
