#!/usr/bin/env python3
"""Run each seeded change under /verif/seeded against the check of its property (and optionally all checks);
writes /verif/seeded/MATRIX.json and updates each meta.json's detected_by."""
import glob
import json
import os
import subprocess
import sys

os.chdir("/verif")
only = sys.argv[1:] 
rows = []
for meta_path in sorted(glob.glob("/verif/seeded/C*/*/meta.json")):
    d = os.path.dirname(meta_path)
    meta = json.load(open(meta_path))
    pid = meta["property"]
    if only and pid not in only:
        continue
    assert subprocess.run(["git", "-C", "/repo", "status", "--porcelain"], capture_output=True, text=True).stdout.strip() == "", "repo dirty"
    ap = subprocess.run(["git", "-C", "/repo", "apply", os.path.join(d, "patch.diff")], capture_output=True, text=True)
    if ap.returncode != 0:
        rows.append({"seed": f"{pid}/{meta['name']}", "applies": False, "note": ap.stderr[:200]})
        print(rows[-1]); continue
    try:
        p = subprocess.run(["./check", pid, "quick"], capture_output=True, text=True, timeout=3000)
        sigs = [l.split("signature:")[1].strip() for l in p.stdout.splitlines() if "signature:" in l]
        row = {"seed": f"{pid}/{meta['name']}", "applies": True, "check": pid, "exit": p.returncode, "signatures": sigs[:4]}
    finally:
        subprocess.run(["git", "-C", "/repo", "checkout", "--", "."], check=True)
    rows.append(row)
    meta["detected_by"] = {"check": pid, "tier": "quick", "exit": row["exit"], "signatures": row["signatures"]}
    json.dump(meta, open(meta_path, "w"), indent=1)
    print(row, flush=True)
old = []
if only and os.path.exists("/verif/seeded/MATRIX.json"):
    old = [r for r in json.load(open("/verif/seeded/MATRIX.json")) if r["seed"].split("/")[0] not in only]
json.dump(sorted(old + rows, key=lambda r: r["seed"]), open("/verif/seeded/MATRIX.json", "w"), indent=1)
