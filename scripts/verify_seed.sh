#!/bin/bash
# usage: scripts/verify_seed.sh <src_dir with patch.diff demo.py notes.md> <Cxx> <name>
# Confirms in a scratch worktree: patch applies, test suite passes with it, demo fails with it and passes without.
SRC="$1"; ID="$2"; NAME="$3"
WT=/tmp/wt_verify_$$_$NAME
DEST=/verif/seeded/$ID/$NAME
git -C /repo worktree add -q "$WT" HEAD || exit 9
cd "$WT"
res_apply=fail; res_tests=unknown; res_demo_mut=unknown; res_demo_clean=unknown
if git apply "$SRC/patch.diff"; then res_apply=ok; fi
if [ $res_apply = ok ]; then
  out=$(/venv/bin/python -m pytest -q -p no:cacheprovider --timeout=900 --continue-on-collection-errors 2>&1 | tail -3)
  passed=$(echo "$out" | grep -o '[0-9]* passed' | grep -o '[0-9]*')
  failed=$(echo "$out" | grep -o '[0-9]* failed' | grep -o '[0-9]*')
  res_tests="passed=${passed:-0} failed=${failed:-0}"
  timeout 120 /venv/bin/python "$SRC/demo.py" >/tmp/demo_mut_$$.log 2>&1; rc1=$?
  res_demo_mut="exit=$rc1"
  git checkout -q -- . ; git clean -fdq
  timeout 120 /venv/bin/python "$SRC/demo.py" >/tmp/demo_clean_$$.log 2>&1; rc2=$?
  res_demo_clean="exit=$rc2"
fi
cd /; git -C /repo worktree remove --force "$WT"
ok=no
if [ "$res_apply" = ok ] && [ "${passed:-0}" = 146 ] && [ "${failed:-0}" = 0 ] && [ "$rc1" != 0 ] && [ "$rc2" = 0 ]; then ok=yes; fi
if [ $ok = yes ]; then
  mkdir -p "$DEST"; cp "$SRC/patch.diff" "$SRC/demo.py" "$DEST/"; [ -f "$SRC/notes.md" ] && cp "$SRC/notes.md" "$DEST/"
  python3 - "$DEST" "$ID" "$NAME" "$res_tests" "$res_demo_mut" "$res_demo_clean" <<'PY'
import json, sys, os
dest, pid, name, tests, dm, dc = sys.argv[1:]
notes = open(os.path.join(dest, "notes.md")).read() if os.path.exists(os.path.join(dest, "notes.md")) else ""
json.dump({
  "property": pid, "name": name, "origin": "independent sub-agent given only the property text and a scratch worktree",
  "needs_to_manifest": notes[:1500],
  "confirmed": {
    "patch_applies_to_pinned_tree": True,
    "test_suite_with_patch": tests + " (baseline 146 passed)",
    "demo_with_patch": dm + " (must be non-zero)",
    "demo_without_patch": dc + " (must be 0)",
    "commands": ["git apply patch.diff", "/venv/bin/python -m pytest -q -p no:cacheprovider --timeout=900 --continue-on-collection-errors",
                 "/venv/bin/python demo.py", "git checkout -- . && /venv/bin/python demo.py"],
  },
  "detected_by": "see DESIGN.md section 8 (filled by scripts/seed_matrix.py)",
}, open(os.path.join(dest, "meta.json"), "w"), indent=1)
PY
fi
echo "SEED $ID/$NAME apply=$res_apply tests=[$res_tests] demo_mut=$res_demo_mut demo_clean=$res_demo_clean kept=$ok"
rm -f /tmp/demo_mut_$$.log /tmp/demo_clean_$$.log
