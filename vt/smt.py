"""vt.smt -- run SMT-LIB2 text through an external solver binary (second-solver cross checks, lemmas)."""
from __future__ import annotations

import os
import subprocess
import tempfile
import time
from typing import Dict

BIN = {"cvc5": ["cvc5"], "z3-4.8": ["/usr/bin/z3"], "z3-5.1": ["z3-new"]}


def run_smt2(text: str, solver: str, timeout_s: int = 120) -> Dict[str, object]:
    t0 = time.time()
    fd, path = tempfile.mkstemp(suffix=".smt2", prefix="vt_")
    try:
        with os.fdopen(fd, "w") as fh:
            fh.write(text)
        try:
            p = subprocess.run(BIN[solver] + [path], capture_output=True, text=True, timeout=timeout_s)
            out = (p.stdout + p.stderr).strip()
        except subprocess.TimeoutExpired:
            out = "timeout"
        except FileNotFoundError:
            out = "solver-not-found"
    finally:
        os.unlink(path)
    first = out.splitlines()[0].strip() if out else "no-output"
    verdict = first if first in ("sat", "unsat", "unknown") and "(error" not in out else ("error: " + out[:200] if out not in ("timeout",) else "timeout")
    return {"solver": solver, "verdict": verdict, "time_s": round(time.time() - t0, 2)}
