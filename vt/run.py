"""vt.run -- drive one property check: explore all cases, confirm counterexamples on the
real code, match known findings, write evidence, print the verdict lines."""
from __future__ import annotations

import fnmatch
import hashlib
import importlib
import json
import multiprocessing as mp
import os
import sys
import time
import traceback
from typing import Any, Dict, List, Optional, Tuple

VERIF = os.path.dirname(os.path.dirname(os.path.abspath(__file__)))
_OUT = os.environ.get("VT_OUT", VERIF)  # scripts/ redirect the output of runs on scratch worktrees
EVIDENCE_DIR = os.path.join(_OUT, "evidence")
REPLAY_DIR = os.path.join(_OUT, "replays")
KNOWN = os.path.join(VERIF, "known_findings.json")


def _worker(job: Tuple[str, str, Any, Dict[str, Any]]) -> Dict[str, Any]:
    modname, harness_name, case, budget = job[:4]
    job_no = job[4] if len(job) > 4 else 0
    from vt import sym
    from vt.world import Coverage

    cov = Coverage()
    try:
        mod = importlib.import_module(modname)
        if hasattr(mod, "warmup"):
            mod.warmup()
        cov.start()
        harness = (getattr(mod, "HARNESSES", None) or {}).get(harness_name) or getattr(mod, harness_name)
        res = sym.explore(
            harness,
            case,
            max_paths=budget.get("max_paths", 200000),
            budget_s=budget.get("budget_s"),
            sigf=(lambda f: mod.signature({**f, "harness": harness_name})) if hasattr(mod, "signature") else None,
            dump_dir=budget.get("dump_dir"), dump_limit=budget.get("dump_limit", 0), dump_tag=f"j{job_no}",
        )
    except BaseException:  # noqa: BLE001 - report, never hang the pool
        res = {
            "case": case, "paths": 0, "pruned": 0, "exhausted": False, "queries": 0, "obligations": 0,
            "obligations_solver": 0, "solver_s": 0.0, "wall_s": 0.0, "max_depth": 0, "failures": [],
            "covers": {}, "inconclusive": ["worker crashed:\n" + traceback.format_exc()[-2000:]],
            "samples": [], "symbols": [],
        }
    finally:
        cov.stop()
    res["harness"] = harness_name
    res["cov"] = sorted(cov.seen)
    return res


def load_known(prop: str) -> List[Dict[str, Any]]:
    try:
        with open(KNOWN, encoding="utf-8") as fh:
            data = json.load(fh)
    except FileNotFoundError:
        return []
    return [f for f in data.get("findings", []) if f.get("property") == prop]


def _default_signature(f: Dict[str, Any]) -> str:
    return str(f["label"])


def run_property(modname: str, tier: str, seed: int, jobs: Optional[int] = None) -> int:
    import shutil
    import tempfile

    scratch = tempfile.mkdtemp(prefix="vt_run_")
    os.environ["VT_SCRATCH"] = scratch
    try:
        return _run_property(modname, tier, seed, jobs)
    finally:
        shutil.rmtree(scratch, ignore_errors=True)


def _run_property(modname: str, tier: str, seed: int, jobs: Optional[int] = None) -> int:
    t0 = time.time()
    mod = importlib.import_module(modname)
    pid = mod.ID
    from vt import sym
    from vt.world import describe_functions

    harnesses: Dict[str, Any] = getattr(mod, "HARNESSES", None) or {"harness": mod.harness}
    joblist: List[Any] = []
    xdir = None
    if tier == "thorough" and getattr(mod, "CROSSCHECK", 0):
        xdir = os.path.join(os.environ["VT_SCRATCH"], "smt2")
        os.makedirs(xdir, exist_ok=True)
    for hname in harnesses:
        for case in mod.cases(tier, hname) if _takes_two(mod.cases) else mod.cases(tier):
            b = dict(mod.budget(tier) if hasattr(mod, "budget") else {})
            if xdir:
                b.update(dump_dir=xdir, dump_limit=int(getattr(mod, "CROSSCHECK", 0)))
            joblist.append((modname, hname, case, b, len(joblist)))
    nproc = jobs or min(int(os.environ.get("VERIF_JOBS", "16")), max(1, len(joblist)))
    results: List[Dict[str, Any]] = []
    if nproc <= 1 or len(joblist) <= 1:
        results = [_worker(j) for j in joblist]
    else:
        with mp.get_context("fork").Pool(nproc, maxtasksperchild=8) as pool:
            results = list(pool.imap_unordered(_worker, joblist, chunksize=1))

    inconclusive: List[str] = []
    covers: Dict[str, int] = {}
    seen_funcs = set()
    tot = dict(paths=0, pruned=0, queries=0, obligations=0, obligations_solver=0, solver_s=0.0, max_depth=0)
    failures: List[Dict[str, Any]] = []
    samples: List[Any] = []
    for r in results:
        for k in ("paths", "pruned", "queries", "obligations", "obligations_solver"):
            tot[k] += r[k]
        tot["solver_s"] += r["solver_s"]
        tot["max_depth"] = max(tot["max_depth"], r["max_depth"])
        for k, v in r["covers"].items():
            covers[k] = covers.get(k, 0) + v
        if not r["exhausted"] and not r["inconclusive"]:
            r["inconclusive"].append("not exhausted")
        for msg in r["inconclusive"]:
            inconclusive.append(f"[{r['harness']} {json.dumps(r['case'], default=str)[:120]}] {msg}")
        for f in r["failures"]:
            f["harness"] = r["harness"]
            failures.append(f)
        seen_funcs.update(tuple(x) for x in r["cov"])
        if r["samples"] and len(samples) < 4:
            samples.append({"harness": r["harness"], "case": r["case"], **r["samples"][0]})

    # extra solver obligations (lemmas, inductive checks, second-solver cross checks)
    extra_obl: List[Dict[str, Any]] = []
    if hasattr(mod, "extra"):
        try:
            extra_obl = mod.extra(tier, seed) or []
        except Exception:
            inconclusive.append("extra obligations crashed:\n" + traceback.format_exc()[-1500:])
    if xdir:
        extra_obl = list(extra_obl) + crosscheck(xdir, results_failed=bool(failures))
    for ob in extra_obl:
        if ob.get("verdict") != ob.get("expected", "unsat"):
            if ob.get("counterexample") is not None:
                failures.append(
                    {"label": ob["name"], "case": ob.get("case"), "assignment": ob["counterexample"], "choices": [],
                     "events": [], "info": {"engine": ob.get("solver")}, "harness": ob.get("harness", "extra")},
                )
            else:
                inconclusive.append(f"obligation {ob['name']}: {ob.get('verdict')} (expected {ob.get('expected', 'unsat')})")

    # vacuity
    required = mod.required_covers(tier) if hasattr(mod, "required_covers") else list(getattr(mod, "REQUIRED_COVERS", []))
    missing = [c for c in required if covers.get(c, 0) == 0]
    if missing and not failures:
        inconclusive.append("vacuity: reachability witnesses never reached: " + ", ".join(missing))

    # confirm counterexamples on the real code, match known findings
    sigf = getattr(mod, "signature", _default_signature)
    known = load_known(pid)
    by_sig: Dict[str, List[Dict[str, Any]]] = {}
    for f in failures:
        lst = by_sig.setdefault(sigf(f), [])
        if len(lst) < 8:
            lst.append(f)
    violations: List[Tuple[str, str]] = []
    known_hit: List[str] = []
    unconfirmed: List[str] = []
    os.makedirs(REPLAY_DIR, exist_ok=True)
    for sig, cands in sorted(by_sig.items()):
        # the same signature may have been found in several cases: report it if any of them reproduces on the real code
        ok, detail, f = False, None, cands[0]
        for cand in cands:
            ok, detail = confirm(mod, harnesses, cand, sigf)
            if ok:
                f = cand
                break
        rec = {
            "property": pid, "module": modname, "harness": f.get("harness"), "signature": sig,
            "failure": f, "confirmed_on_real_code": ok, "confirmation": detail,
            "how_to_replay": f"cd {VERIF} && ./check replay <this file>",
        }
        h = hashlib.sha256(sig.encode()).hexdigest()[:10]
        path = os.path.join(REPLAY_DIR, f"{pid}_{h}.json")
        with open(path, "w", encoding="utf-8") as fh:
            json.dump(rec, fh, indent=1, default=str)
        if not ok:
            unconfirmed.append(f"{sig}: {str(detail)[:300]}")
            continue
        hit = next((k for k in known if k.get("status") == "open" and fnmatch.fnmatchcase(sig, k["signature"])), None)
        if hit is not None:
            known_hit.append(f"KNOWN-FINDING: property={pid} {hit['what']}")
        else:
            violations.append((sig, path))
    if unconfirmed:
        inconclusive.append("counterexample(s) not reproduced on the real code (encoding/stub error): " + " | ".join(unconfirmed))

    funcs = describe_functions(seen_funcs)
    wall = time.time() - t0
    n_solver_unsat = tot["obligations_solver"] + sum(1 for o in extra_obl if o.get("verdict") == "unsat")
    level = getattr(mod, "LEVEL", "other")
    bounds = mod.bounds(tier) if hasattr(mod, "bounds") else getattr(mod, "BOUNDS", {})
    coverage: Dict[str, Any] = {
        "explanation": getattr(mod, "EXPLANATION", "") + (
            f" This run: {len(joblist)} harness cases, {tot['paths']} feasible paths explored to exhaustion"
            f" ({tot['pruned']} pruned as infeasible), {tot['queries']} solver queries, "
            f"{tot['obligations']} obligations of which {tot['obligations_solver']} needed the solver; "
            f"{len(extra_obl)} additional solver obligations."
        ),
        "evaluations": tot["paths"],
        "distinct_nontrivial": tot["paths"],
        "rule": "one evaluation = one feasible path of the real code (distinct decision vectors => distinct paths); "
                "every counted path reached the harness' final obligations; symbolic inputs cover all values of the path's region",
        "samples": samples or [{"note": "no path completed"}],
        "exhaustive": not inconclusive,
        "engine": "vt.sym path-wise symbolic execution of /repo byte code with z3 " + _z3_version(),
        "functions_encoded": funcs,
        "bounds": bounds,
        "cases": len(joblist),
        "paths": tot["paths"],
        "paths_pruned_infeasible": tot["pruned"],
        "solver_queries": tot["queries"],
        "obligations": tot["obligations"] + len(extra_obl),
        "discharged": (tot["obligations"] + len(extra_obl)) if not failures else 0,
        "obligations_decided_by_solver": n_solver_unsat,
        "extra_obligations": extra_obl,
        "solver_time_s": round(tot["solver_s"] + sum(o.get("time_s", 0) for o in extra_obl), 3),
        "max_decision_depth": tot["max_depth"],
        "reachability_witnesses": {k: covers.get(k, 0) for k in list(required) + sorted(set(covers) - set(required))},
        "trusted_base": list(getattr(mod, "TRUSTED", [])),
        "known_findings_hit": known_hit,
        "inconclusive": inconclusive,
        "violations": [s for s, _ in violations],
    }
    if level == "model_checking":
        coverage.update(
            states=max(1, tot["paths"]), transitions=max(1, tot["queries"]),
            traces_validated_against_impl=tot["paths"],
        )
    if hasattr(mod, "coverage_extra"):
        try:
            coverage.update(mod.coverage_extra(results, extra_obl))
        except Exception:
            inconclusive.append("coverage_extra crashed: " + traceback.format_exc()[-500:])
    evidence = {
        "property_id": pid, "tier": tier, "seed": seed, "level": level, "coverage": coverage,
        "assumptions": list(getattr(mod, "ASSUMPTIONS", [])), "wall_s": round(wall, 2),
        "violations": len(violations),
    }
    os.makedirs(EVIDENCE_DIR, exist_ok=True)
    with open(os.path.join(EVIDENCE_DIR, f"{pid}.json"), "w", encoding="utf-8") as fh:
        json.dump(evidence, fh, indent=1, default=str)

    for line in known_hit:
        print(line)
    for sig, path in violations:
        print(f"VIOLATION property={pid} replay={path}")
        print(f"  signature: {sig}")
    print(
        f"{pid} [{tier}] cases={len(joblist)} paths={tot['paths']} queries={tot['queries']} "
        f"obligations={tot['obligations']}+{len(extra_obl)} solver_s={tot['solver_s']:.1f} wall_s={wall:.1f}",
    )
    if violations:
        return 1
    if inconclusive:
        print(f"INCONCLUSIVE property={pid}")
        for m in inconclusive[:8]:
            print("  " + m[:700].replace("\n", "\n    "))
        return 2
    print(f"OK property={pid}")
    return 0


def crosscheck(xdir: str, results_failed: bool) -> List[Dict[str, Any]]:
    """Second-solver cross check: the dumped obligations (negated property under the path condition) must be
    unsat for cvc5 as well.  One summary obligation per run; skipped when z3 itself found counterexamples."""
    import glob
    from concurrent.futures import ThreadPoolExecutor

    from vt.smt import run_smt2

    files = sorted(glob.glob(os.path.join(xdir, "*.smt2")))
    if not files or results_failed:
        return []
    t0 = time.time()

    def one(path: str) -> Tuple[str, str, str]:
        with open(path, encoding="utf-8") as fh:
            text = fh.read()
        v = str(run_smt2(text, "cvc5", 20)["verdict"])
        if v in ("sat", "unsat"):
            return path, v, "cvc5"
        v2 = str(run_smt2(text.replace("(set-logic ALL)\n", ""), "z3-4.8", 60)["verdict"])
        return path, v2, "z3-4.8"

    with ThreadPoolExecutor(8) as ex:
        res = list(ex.map(one, files))
    wrong = [(os.path.basename(p), v, who) for p, v, who in res if v == "sat"]
    undecided = [(os.path.basename(p), v, who) for p, v, who in res if v not in ("sat", "unsat")]
    by = {who: sum(1 for _, v, w in res if w == who and v == "unsat") for who in ("cvc5", "z3-4.8")}
    return [{"name": f"second solver on {len(files)} dumped obligations (cvc5 1.0 binary, z3 4.8.12 binary where cvc5 does not answer in 20 s)",
             "verdict": "unsat" if not wrong else f"DISAGREEMENT: {wrong[:5]}", "expected": "unsat", "solver": "cvc5 1.0 / z3 4.8.12",
             "time_s": round(time.time() - t0, 2), "obligations": len(files), "confirmed_unsat_by": by, "undecided": undecided[:10]}]


def confirm(mod: Any, harnesses: Dict[str, Any], f: Dict[str, Any], sigf: Any) -> Tuple[bool, Any]:
    """Re-run on the real code with the concrete counterexample values."""
    from vt import sym

    if hasattr(mod, "confirm"):
        try:
            return mod.confirm(f)
        except Exception:
            return False, "confirm crashed: " + traceback.format_exc()[-1200:]
    h = harnesses.get(f.get("harness") or "harness")
    if h is None:
        return False, "no harness to replay"
    rep = sym.replay(h, f["case"], f["assignment"], f["choices"])
    want = sigf(f)
    got = [sigf({**g, "harness": f.get("harness")}) for g in rep["failures"]]
    if want in got:
        return True, {"reproduced": want, "events": rep["events"][-40:]}
    return False, {"wanted": want, "got": got, "error": rep["error"], "events": rep["events"][-40:]}


def replay_file(path: str) -> int:
    with open(path, encoding="utf-8") as fh:
        rec = json.load(fh)
    mod = importlib.import_module(rec["module"])
    harnesses = getattr(mod, "HARNESSES", None) or {"harness": mod.harness}
    sigf = getattr(mod, "signature", _default_signature)
    ok, detail = confirm(mod, harnesses, rec["failure"], sigf)
    print(json.dumps({"reproduced": ok, "detail": detail}, indent=1, default=str))
    return 1 if ok else 0


def _takes_two(fn: Any) -> bool:
    import inspect

    return len(inspect.signature(fn).parameters) >= 2


def _z3_version() -> str:
    import z3

    return z3.get_version_string()
