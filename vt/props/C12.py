"""C12 -- dependencies are torn down exactly once, before the result becomes visible.

Real code executed: Receiver.run_task / callback with the real taskiq_dependencies resolver on a virtual-time loop.
Decision variables: dependency shape (generator / generator + async generator / failing dependency), outcome,
propagate_exceptions, acknowledge type, timeout race.
"""
from __future__ import annotations

from typing import Any, Dict, List

from vt import sym
from vt.props import _cb

ID = "C12"
LEVEL = "other"
TECHNIQUE = "exhaustive path exploration (symbolic choice variables) of the real Receiver.run_task with recording generator dependencies; obligations on teardown count, order and exception propagation"
EXPLANATION = (
    "Path-wise symbolic execution of the real Receiver.callback/run_task together with the installed taskiq_dependencies: dependency "
    "shape, task outcome (return, exceptions, no-result, timeout, failing dependency), propagate flag and ack type are decision "
    "variables; on each path every opened dependency must be closed exactly once, in reverse order, after the task (or the failing "
    "dependency) finished and before set_result / post-execution ack, and must see the exception iff propagation is enabled."
)
ASSUMPTIONS = [
    "the per-dependency teardown mechanics live in third-party taskiq_dependencies; they are executed, not encoded - the claim is about the receiver's use of it for the graph shapes listed in bounds",
    "hooks do not raise",
]
TRUSTED = ["taskiq_dependencies 1.5.7 (installed, executed as is)", "CPython asyncio (real, virtual clock)", "vt.sym explorer"]
BOUNDS = {"graphs": "1 generator dep; generator + async-generator dep; generator dep + failing generator dep", "messages": 1}
REQUIRED_COVERS = ["inmemory_broker", "behind_plain_nocache", "gen", "gen_agen", "fail", "nocache", "cm_acm", "chain3", "propagate", "no_propagate", "exception_seen", "timeout", "timeout_cleanup", "return"]


def cases(tier: str, hname: str = "harness") -> List[Any]:
    if hname == "inmemory":
        return [{"propagate": p, "fails": f, "cast_types": ct} for p in (True, False) for f in (True, False) for ct in (True, False)]
    out = []
    for deps in ("gen", "gen_agen", "fail", "nocache", "cm_acm", "chain3", "behind_plain_nocache"):
        for prop in (True, False):
            for ack in _cb.ACKS:
                out.append({"deps": deps, "propagate": prop, "ack": ack})
    return out


def harness(c: sym.Ctx, case: Dict[str, Any]) -> None:
    deps = case["deps"]
    spec: Dict[str, Any] = {
        "ack": case["ack"], "async_ack": False, "target": "async", "deps": deps, "propagate": case["propagate"],
        "backend_fail0": False, "mws": [{"on_error": "sync", "post_execute": "sync"}], "task_gate": False, "backend_gate": False,
        "outcome_choices": _cb.OUTCOMES + ("timeout_cleanup",),  # a timed-out function whose clean-up after the cancellation takes a while
    }
    if deps == "fail":
        spec["outcome0"] = "return"
        spec["timeout_label0"] = False
    lab = _cb.run(c, spec, n_msgs=1)
    o = spec["outcome0"]
    c.cover(deps)
    c.cover("propagate" if case["propagate"] else "no_propagate")
    if deps != "fail":
        c.cover(o) if o in ("timeout", "return", "timeout_cleanup") else None
    c.check(not lab.deadlock and lab.main_done, "no_deadlock")
    opened = [e[1] for e in lab.ev if e[0] == "dep_open"]
    closed = [e[1] for e in lab.ev if e[0] == "dep_close"]
    want_open = {"gen": ["a"], "gen_agen": ["a", "b"], "fail": ["a", "f"], "nocache": ["c", "d", "e"], "cm_acm": ["m", "n", "a"], "chain3": ["x", "y", "z"], "behind_plain_nocache": ["a"]}[deps]
    c.check(opened == want_open, "dependencies_opened", opened=opened)
    live = [d for d in opened if d != "f"]  # 'f' raises while opening: its own finally does not run (never yielded)
    c.check(sorted(closed) == sorted(live), "each_opened_dependency_closed_exactly_once", opened=opened, closed=closed)
    c.check(closed == list(reversed(live)), "teardown_in_reverse_order", opened=opened, closed=closed)
    failed = deps == "fail" or o != "return"
    seen = sorted(e[1] for e in lab.ev if e[0] == "dep_exc")
    if failed and case["propagate"]:
        c.cover("exception_seen")
        c.check(seen == sorted(live), "exception_thrown_into_dependencies_when_propagating", seen=seen, live=live)
    else:
        c.check(seen == [], "no_exception_thrown_into_dependencies", seen=seen, failed=failed, propagate=case["propagate"])
    # ordering: after the task function / failing dependency, before store / post-execution ack / error hooks
    te = lab.index("task_end", 0) if deps != "fail" else lab.index("dep_open", "f")
    store = lab.index("set_result", "begin", "id0")
    ackpos = lab.index("ack", 0)
    for pos, e in enumerate(lab.ev):
        if e[0] != "dep_close":
            continue
        c.check(pos > te >= 0, "teardown_after_task_finished", dep=e[1])
        if store >= 0:
            c.check(pos < store, "teardown_before_result_stored", dep=e[1])
        if case["ack"] != "when_received":
            c.check(ackpos < 0 or pos < ackpos, "teardown_before_post_execution_ack", dep=e[1])
    if deps == "fail":
        c.check(lab.count("task_start", 0) == 0, "task_not_run_when_dependency_fails")
        res = [e[3] for e in lab.ev if e[:2] == ("set_result", "begin")]
        c.check(len(res) == 1 and res[0].is_err and type(res[0].error).__name__ == "DepFail", "dependency_failure_is_the_result", res=res)


def signature(f: Dict[str, Any]) -> str:
    sig = f["label"]
    if f["label"] == "teardown_in_reverse_order":
        sig += ":" + str(f["case"].get("deps")) + ":" + ">".join(f["info"].get("closed", []))
    return sig


def inmemory(c: sym.Ctx, case: Dict[str, Any]) -> None:
    """the same teardown obligations when the receiver is the one InMemoryBroker builds from its own options"""
    import contextlib

    from taskiq import InMemoryBroker, TaskiqDepends

    from vt.props._recv import Lab

    c.cover("inmemory_broker")
    lab = Lab(c)
    log: List[Any] = []

    def gen() -> Any:
        log.append(("open", "g"))
        try:
            yield "g"
        except BaseException as exc:  # noqa: BLE001
            log.append(("exc", "g", type(exc).__name__))
            raise
        finally:
            log.append(("close", "g"))

    @contextlib.asynccontextmanager
    async def acm() -> Any:
        log.append(("open", "m"))
        try:
            yield "m"
        except BaseException as exc:  # noqa: BLE001
            log.append(("exc", "m", type(exc).__name__))
            raise
        finally:
            log.append(("close", "m"))

    try:
        broker = InMemoryBroker(propagate_exceptions=case["propagate"], await_inplace=True, cast_types=case["cast_types"])

        async def target(g: str = TaskiqDepends(gen), m: str = TaskiqDepends(acm)) -> str:
            log.append(("task",))
            if case["fails"]:
                raise ValueError("boom")
            return "ok"

        task = broker.register_task(target, task_name="t")

        async def main() -> None:
            await task.kiq()

        mt = lab.loop.create_task(main())
        lab.drive(mt)
        exc = mt.exception() if mt.done() else None
        try:
            broker.executor.shutdown(wait=False)
        except Exception:  # noqa: BLE001
            pass
    finally:
        lab.close()
    c.check(exc is None, "inmemory_send_completes", exc=repr(exc))
    opened = [e[1] for e in log if e[0] == "open"]
    closed = [e[1] for e in log if e[0] == "close"]
    seen = sorted(e[1] for e in log if e[0] == "exc")
    c.check(opened == ["g", "m"] and closed == ["m", "g"], "teardown_in_reverse_order", opened=opened, closed=closed)
    if case["fails"] and case["propagate"]:
        c.check(seen == ["g", "m"], "exception_thrown_into_dependencies_when_propagating", seen=seen, via="InMemoryBroker")
    else:
        c.check(seen == [], "no_exception_thrown_into_dependencies", seen=seen, via="InMemoryBroker", propagate=case["propagate"], failed=case["fails"])


HARNESSES = {"harness": harness, "inmemory": inmemory}
