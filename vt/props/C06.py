"""C06 -- concurrent executions are isolated; results are bound to their own task id.

Real code executed: Receiver.callback / run_task, Context, with the installed taskiq_dependencies resolver; two messages are
processed concurrently and every interleaving of their suspension points (inside dependency resolution, in the task body, in the
result backend) is explored.  Decision variables: dependency graph shape (cached / use_cache=False / nested, sync / async /
generator), interleaving.
"""


import asyncio
from typing import Any, Dict, List

from vt import sym
from vt.props._recv import InlineExecutor, Lab, ackable, encode, make_broker

ID = "C06"
LEVEL = "model_checking"
TECHNIQUE = "exhaustive interleaving exploration (choice variables) of two concurrent executions of the real Receiver.callback with echoing dependencies; identity obligations per execution"
EXPLANATION = (
    "Bounded model checking by path-wise symbolic execution: two messages are processed concurrently by the real Receiver.callback; "
    "the dependency graph shape (cached, use_cache=False, nested, sync/async/generator dependencies that read the Context before or "
    "after a suspension) and every interleaving of the two executions' suspension points are decision variables; on each path every "
    "Context/message/labels/arguments observation made for an execution must belong to that execution's message and the result stored "
    "under a task id must be the one produced from that message."
)
ASSUMPTIONS = [
    "taskiq_dependencies is executed as installed (not encoded)",
    "suspension points are the gates placed in async dependencies, the task body and the result backend",
]
TRUSTED = ["taskiq_dependencies 1.5.7 (executed)", "CPython asyncio (real, virtual clock)", "vt.sym explorer"]
BOUNDS = {"concurrent executions": "2 (quick) / 2 and 3 (thorough) direct callbacks; 3 (quick) / 3 and 4 (thorough) messages through Receiver.listen with max_async_tasks 1 and 2", "dependency shapes": 6, "suspension points per execution": "<= 4"}
REQUIRED_COVERS = ["override", "equal_labels", "typed_args", "interleaved_in_resolution", "nocache", "nested", "generator", "cached", "via_listen"]
SHAPES = ("cached", "nocache_after_wait", "nested_nocache", "generator_nocache", "sync_nocache", "ctx_param_only", "equal_args_of_different_type", "equal_labels_mutated", "no_labels_mutated", "override_adds_nocache")
ARGS_BY_TYPE = [1, True, 1.0]


def cases(tier: str, hname: str) -> List[Any]:
    if hname == "direct":
        return [{"shape": s, "n": n, "A": a} for s in SHAPES for n in ((2,) if tier == "quick" else (2, 3)) for a in (None, 1)]
    return [{"shape": s, "A": a, "msgs": m} for s in ("nocache_after_wait", "nested_nocache") for a in (2, 1)
            for m in ((3,) if tier == "quick" else (3, 4))]


def via_listen(c: sym.Ctx, case: Dict[str, Any]) -> None:
    """the same isolation obligations when the three messages go through the real Receiver.listen with a concurrency limit"""
    from taskiq import Context, TaskiqDepends
    from taskiq.receiver import Receiver

    lab = Lab(c)
    lab.no_arrival_gates = True  # type: ignore[attr-defined]
    gate_no = {"n": 0}

    async def wait(tag: str) -> None:
        gate_no["n"] += 1
        await lab.gate(f"{tag}:{gate_no['n']}")

    def read(ctx: Context = TaskiqDepends()) -> str:
        return ctx.message.task_id

    async def slow() -> str:
        await wait("dep")
        return "slow"

    def nested(inner: str = TaskiqDepends(read, use_cache=False)) -> str:
        return inner

    dep = read if case["shape"] == "nocache_after_wait" else nested

    async def task(i: int, s: str = TaskiqDepends(slow), rid: str = TaskiqDepends(dep, use_cache=False), ctx: Context = TaskiqDepends()) -> Any:
        await wait("body")
        return (i, rid, ctx.message.task_id, dict(ctx.message.labels), list(ctx.message.args))

    try:
        broker = make_broker(lab)
        broker.register_task(task, task_name="t")
        n = case.get("msgs", 3)
        broker.script = [ackable(lab, i, encode(broker, "t", f"id{i}", [i], {"who": f"L{i}"}), False) for i in range(n)]
        recv = Receiver(broker, executor=InlineExecutor(), run_startup=False, max_async_tasks=case["A"], max_prefetch=1)
        finish = asyncio.Event()
        main = lab.loop.create_task(recv.listen(finish))
        for _ in range(400):
            lab.loop.settle()
            if main.done():
                break
            stored_n = sum(1 for e in lab.ev if e[:2] == ("set_result", "begin"))
            opts = sorted(g for g, f in lab.gates.items() if not f.done() and g != "stream")
            if stored_n < n and opts:
                pick = c.choose(opts, "sched")
                lab.gates.pop(pick).set_result(None)
                continue
            if not finish.is_set():
                finish.set()
                continue
            if lab.loop.next_timer() is not None:
                lab.loop.tick()
                continue
            break
        done = main.done()
    finally:
        lab.close()
    c.cover("via_listen")
    c.check(done, "listen_completes")
    check_results(c, lab, case.get("msgs", 3), case["shape"])


def harness(c: sym.Ctx, case: Dict[str, Any]) -> None:
    from taskiq import Context, TaskiqDepends
    from taskiq.receiver import Receiver

    shape = case["shape"]
    lab = Lab(c)
    seen: List[Any] = []
    gate_no = {"n": 0}

    async def wait(tag: str) -> None:
        gate_no["n"] += 1
        await lab.gate(f"{tag}:{gate_no['n']}")

    def read(ctx: Context = TaskiqDepends()) -> str:
        return ctx.message.task_id

    async def slow() -> str:
        await wait("dep")
        lab.rec("slow_done")
        return "slow"

    async def read_late(ctx: Context = TaskiqDepends()) -> str:
        await wait("dep")
        return ctx.message.task_id

    def nested(inner: str = TaskiqDepends(read, use_cache=False)) -> str:
        return inner

    def gen_read(ctx: Context = TaskiqDepends()) -> Any:
        yield ctx.message.task_id

    try:
        broker = make_broker(lab, backend_gate=True)

        if shape == "equal_args_of_different_type":
            c.cover("typed_args")
        if shape == "cached":
            c.cover("cached")

            async def task(i: int, s: str = TaskiqDepends(slow), rid: str = TaskiqDepends(read), ctx: Context = TaskiqDepends()) -> Any:
                await wait("body")
                return (i, rid, ctx.message.task_id, dict(ctx.message.labels), list(ctx.message.args))
        elif shape == "nocache_after_wait":
            c.cover("nocache")

            async def task(i: int, s: str = TaskiqDepends(slow), rid: str = TaskiqDepends(read, use_cache=False), ctx: Context = TaskiqDepends()) -> Any:  # type: ignore[misc]
                await wait("body")
                return (i, rid, ctx.message.task_id, dict(ctx.message.labels), list(ctx.message.args))
        elif shape == "nested_nocache":
            c.cover("nested")

            async def task(i: int, s: str = TaskiqDepends(slow), rid: str = TaskiqDepends(nested, use_cache=False), ctx: Context = TaskiqDepends()) -> Any:  # type: ignore[misc]
                await wait("body")
                return (i, rid, ctx.message.task_id, dict(ctx.message.labels), list(ctx.message.args))
        elif shape == "generator_nocache":
            c.cover("generator")

            async def task(i: int, s: str = TaskiqDepends(slow), rid: str = TaskiqDepends(gen_read, use_cache=False), ctx: Context = TaskiqDepends()) -> Any:  # type: ignore[misc]
                await wait("body")
                return (i, rid, ctx.message.task_id, dict(ctx.message.labels), list(ctx.message.args))
        elif shape == "sync_nocache":
            async def task(i: int, rid0: str = TaskiqDepends(read_late, use_cache=False), rid: str = TaskiqDepends(read, use_cache=False),  # type: ignore[misc]
                           ctx: Context = TaskiqDepends()) -> Any:
                await wait("body")
                return (i, rid if rid == rid0 else f"{rid0}|{rid}", ctx.message.task_id, dict(ctx.message.labels), list(ctx.message.args))
        elif shape == "override_adds_nocache":
            c.cover("override")

            def plain() -> str:
                return "plain"

            def replacement(s2: str = TaskiqDepends(slow), rid: str = TaskiqDepends(read, use_cache=False)) -> str:
                return rid

            # the declared graph has only a cached, dependency-free node; the broker-level override swaps in one that
            # resolves an un-cached Context reader after a suspension
            broker.dependency_overrides = {plain: replacement}

            async def task(i: int, rid: str = TaskiqDepends(plain), ctx: Context = TaskiqDepends()) -> Any:  # type: ignore[misc]
                await wait("body")
                return (i, rid, ctx.message.task_id, dict(ctx.message.labels), list(ctx.message.args))
        elif shape in ("equal_labels_mutated", "no_labels_mutated"):
            c.cover("equal_labels")

            async def task(i: int, ctx: Context = TaskiqDepends()) -> Any:  # type: ignore[misc]
                ctx.message.labels["mark"] = i  # an execution annotates its own message (as Context.requeue does)
                await wait("body")
                return (i, ctx.message.task_id, ctx.message.task_id, dict(ctx.message.labels), list(ctx.message.args))
        elif shape == "equal_args_of_different_type":
            from typing import Union

            async def task(i: Union[bool, int, float], ctx: Context = TaskiqDepends()) -> Any:  # type: ignore[misc]
                await wait("body")
                return (i, ctx.message.task_id, ctx.message.task_id, dict(ctx.message.labels), list(ctx.message.args))
        else:
            async def task(i: int, ctx: Context = TaskiqDepends()) -> Any:  # type: ignore[misc]
                await wait("body")
                first = ctx.message.task_id
                await wait("body")
                return (i, first, ctx.message.task_id, dict(ctx.message.labels), list(ctx.message.args))

        broker.register_task(task, task_name="t")
        # callbacks are started directly (as InMemoryBroker does), so they overlap whatever the receiver's own limit is
        recv = Receiver(broker, executor=InlineExecutor(), run_startup=False, max_async_tasks=case.get("A"))
        nmsg = case.get("n", 2)
        sent = [ARGS_BY_TYPE[i] if shape == "equal_args_of_different_type" else i for i in range(nmsg)]
        if shape == "equal_labels_mutated":
            # every message carries the same (typed) label set
            msgs = [ackable(lab, i, encode(broker, "t", f"id{i}", [sent[i]], {"who": "same"}, labels_types={"who": 3}), False) for i in range(nmsg)]
            want_labels = [{"who": "same", "mark": i} for i in range(nmsg)]
        elif shape == "no_labels_mutated":
            # no message carries any label
            msgs = [ackable(lab, i, encode(broker, "t", f"id{i}", [sent[i]], {}), False) for i in range(nmsg)]
            want_labels = [{"mark": i} for i in range(nmsg)]
        else:
            msgs = [ackable(lab, i, encode(broker, "t", f"id{i}", [sent[i]], {"who": f"L{i}"}), False) for i in range(nmsg)]
            want_labels = [{"who": f"L{i}"} for i in range(nmsg)]

        async def main() -> None:
            tasks = [asyncio.ensure_future(recv.callback(message=m, raise_err=False)) for m in msgs]
            await asyncio.gather(*tasks, return_exceptions=True)

        mt = lab.loop.create_task(main())
        lab.drive(mt)
    finally:
        lab.close()
    c.check(lab.main_done if hasattr(lab, "main_done") else mt.done(), "both_executions_complete", deadlock=lab.deadlock)
    order = [e[0] for e in lab.ev if e[0] in ("slow_done",)]
    if len(order) >= 2 and lab.index("slow_done") < lab.index("set_result", "begin"):
        c.cover("interleaved_in_resolution")
    check_results(c, lab, case.get("n", 2), shape, sent, want_labels)


def check_results(c: sym.Ctx, lab: Any, n: int, shape: str, sent: Any = None, want_labels: Any = None) -> None:
    stored = {e[2]: e[3] for e in lab.ev if e[:2] == ("set_result", "begin")}
    c.check(sorted(stored) == [f"id{i}" for i in range(n)], "one_result_per_task_id", stored=sorted(stored))
    for i in range(n):
        res = stored.get(f"id{i}")
        if res is None:
            continue
        c.check(not res.is_err, "execution_succeeds", msg=i, error=res.error)
        if res.is_err:
            continue
        arg, rid, cid, labels, args = res.return_value
        want = sent[i] if sent is not None else i
        c.check(type(arg) is type(want) and arg == want and [type(a) for a in args] == [type(want)] and list(args) == [want],
                "result_stored_under_the_id_of_the_message_that_produced_it", msg=i, arg=arg, args=args, want=want)
        wl = want_labels[i] if want_labels is not None else {"who": f"L{i}"}
        c.check(cid == f"id{i}" and labels == wl, "task_function_sees_its_own_context", msg=i, ctx_task_id=cid, labels=labels, want=wl)
        c.check(rid == f"id{i}", "dependency_sees_the_context_of_its_own_message", msg=i, dep_saw=rid, shape=shape)
        c.check(res.labels == wl, "result_carries_own_labels", msg=i, labels=res.labels, want=wl)


HARNESSES = {"direct": harness, "listen": via_listen}
