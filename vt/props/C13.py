"""C13 -- a cron schedule is due exactly in the minutes its expression matches.

Real code executed: taskiq.cli.scheduler.run.get_task_delay (cron branch).
Symbolic: now (unbounded Int us), timedelta offset (unbounded Int us, any sign, incl. 0),
zone offset (uninterpreted ZoneOff(zone, utc)), expression (uninterpreted Match(expr, minute)).
"""
from __future__ import annotations

import datetime as real_dt
import types
from typing import Any, Dict, List, Tuple

from vt import dtmodel, sym
from vt.dtmodel import MIN, TD, US
from vt.props import _sched

ID = "C13"
CROSSCHECK = 40  # thorough tier: obligations per case re-decided by the cvc5 binary
LEVEL = "other"
TECHNIQUE = "path-wise symbolic execution of get_task_delay (cron branch) with z3; pycron/pytz as uninterpreted functions"
EXPLANATION = (
    "Bounded SMT verification of the real byte code of get_task_delay (cron branch): now and the timedelta offset are "
    "unconstrained z3 Ints (microseconds), the zone's utcoffset and pycron's matcher are uninterpreted functions, so the "
    "obligation 'result is 0 iff Match(expr, floor((now+shift)/1min)), else None' is decided for every instant, every offset, "
    "every zone table and every expression semantics at once; counterexamples are replayed on the real function with real "
    "pycron/pytz against an independent zoneinfo-based expectation."
)
ASSUMPTIONS = [
    "pycron.is_now(expr, dt) depends on dt only through its wall-clock minute (minute, hour, day, month, weekday)",
    "pytz astimezone/localize are functions of (zone, instant) / (zone, wall reading); their tables are not checked (third party)",
    "datetime/timedelta integer model agrees with CPython (validated on random vectors each run)",
]
TRUSTED = ["z3 5.1 (UFLIA)", "vt.dtmodel", "vt.sym explorer", "pycron, pytz (uninterpreted)"]
BOUNDS = {"now": "unbounded Int us", "timedelta offset": "unbounded Int us", "zones": "1 uninterpreted zone", "expressions": "1 uninterpreted expression", "loops": "none"}
REQUIRED_COVERS = ["due", "not_due", "none", "td", "zone", "second_evaluation", "shape_full", "shape_minute", "shape_hour", "model_boundary"]

ZONES = ["Europe/Berlin", "America/New_York", "Australia/Lord_Howe", "Australia/Sydney", "Asia/Kolkata", "Asia/Kathmandu",
         "Pacific/Chatham", "America/St_Johns"]


def cases(tier: str, hname: str = "harness") -> List[Any]:
    return [{"kind": "none"}, {"kind": "td"}, {"kind": "zone"}]


# the expression is opaque to the property (pycron decides), but code may look at its fields: three shapes are used
SHAPES = {"EXPR": "full", "7 * * * *": "minute", "7 3 * * *": "hour"}


def _exact_expr(wall: real_dt.datetime, shape: str = "full") -> str:
    if shape == "minute":
        return f"{wall.minute} * * * *"
    if shape == "hour":
        return f"{wall.minute} {wall.hour} * * *"
    return f"{wall.minute} {wall.hour} {wall.day} {wall.month} *"


def _expected_wall(now_us: int, kind: str, td_us: int, zone: str) -> real_dt.datetime:
    utc = _sched.EPOCH_UTC + real_dt.timedelta(microseconds=now_us)
    if kind == "td":
        return (utc + real_dt.timedelta(microseconds=td_us)).replace(tzinfo=None)
    if kind == "zone":
        import zoneinfo

        return utc.astimezone(zoneinfo.ZoneInfo(zone)).replace(tzinfo=None)
    return utc.replace(tzinfo=None)


def harness(c: sym.Ctx, case: Any) -> None:
    kind = case["kind"]
    c.cover(kind)
    now = c.int("now")
    td = c.int("td") if kind == "td" else 0
    expr = c.choose(list(SHAPES), "expression")
    c.cover("shape_" + SHAPES[expr])
    if c.mode == "sym":
        dtmodel.CLOCK = dtmodel.Clock(now)
        run = _sched.sym_run_module()
        second = c.flag("second_evaluation_in_the_same_process")
        if second:
            # an earlier evaluation at an arbitrary earlier instant (same schedule) must not influence this one
            c.cover("second_evaluation")
            earlier = c.int("earlier")
            c.assume(earlier <= now)
            dtmodel.CLOCK = dtmodel.Clock(earlier)
            # ... of the same schedule, or of another schedule with the same expression in another zone / in UTC
            eoff = c.choose(["same", "other_zone", "utc"], "earlier_offset")
            off0: Any = None
            if eoff == "other_zone":
                off0 = "Z/Two"
            elif eoff == "utc":
                off0 = None
            elif kind == "td":
                off0 = TD(_us=td)
            elif kind == "zone":
                off0 = "Z/One"
            try:
                run.get_task_delay(types.SimpleNamespace(cron=expr, cron_offset=off0, time=None, task_name="t", schedule_id="s"))
            except Exception as exc:  # noqa: BLE001
                c.check(False, "unexpected_exception", exc=repr(exc))
                return
            del run.is_now.calls[:]
            dtmodel.CLOCK = dtmodel.Clock(now)
        off: Any = None
        if kind == "td":
            off = TD(_us=td)
        elif kind == "zone":
            off = "Z/One"
        task = types.SimpleNamespace(cron=expr, cron_offset=off, time=None, task_name="t", schedule_id="s")
        try:
            r = run.get_task_delay(task)
        except Exception as exc:  # noqa: BLE001
            c.check(False, "unexpected_exception", exc=repr(exc))
            return
        shift: Any = 0
        if kind == "td":
            shift = td
        elif kind == "zone":
            shift = run.pytz.timezone("Z/One").offset_at_utc(now)
        want = run.is_now.match(expr, (now + shift) // MIN)
        c.event("result", r, "is_now calls", len(run.is_now.calls))
        if r is None:
            c.cover("not_due")
            c.check(~want if isinstance(want, sym.SymBool) else (not want), "cron_due_iff_match", result=r)
        elif isinstance(r, int) and not isinstance(r, bool) and r == 0:
            c.cover("due")
            c.check(want, "cron_due_iff_match", result=r)
        else:
            c.check(False, "cron_result_not_0_or_None", result=r)
        return
    # concrete replay on the real function with real pycron / pytz
    zone = c.assignment.get("zone_name", ZONES[0])
    earlier = None
    if dict(c.fixed_choices).get("second_evaluation_in_the_same_process"):
        earlier = int(c.assignment.get("earlier", int(now)))
    _concrete(c, kind, int(now), int(td), zone, earlier, SHAPES[expr], dict(c.fixed_choices).get("earlier_offset", "same"))


def _concrete(c: sym.Ctx, kind: str, now: int, td: int, zone: str, earlier: Any = None, shape: str = "full", eoff: Any = "same") -> None:
    """the real get_task_delay on a real ScheduledTask (so the model's own validators run), real pycron / pytz, frozen clock"""
    from taskiq.scheduler.scheduled_task import ScheduledTask

    off_e: Any = None
    if earlier is not None:
        if eoff in ("other_zone", 1):
            off_e = "Asia/Kolkata" if zone != "Asia/Kolkata" else "Europe/Berlin"
        elif eoff in ("utc", 2):
            off_e = None
        elif kind == "td":
            off_e = real_dt.timedelta(microseconds=int(td))
        elif kind == "zone":
            off_e = zone
    wall = _expected_wall(now, kind, int(td), zone)
    off = None
    if kind == "td":
        off = real_dt.timedelta(microseconds=int(td))
    elif kind == "zone":
        off = zone
    for label, w, want_due in (
        ("exact", wall, True),
        ("next-minute", wall + real_dt.timedelta(minutes=1), False),
        ("prev-minute", wall - real_dt.timedelta(minutes=1), False),
    ):
        task = ScheduledTask(task_name="t", labels={}, args=[], kwargs={}, cron=_exact_expr(w, shape), cron_offset=off)
        if earlier is not None:
            # the earlier evaluation: same expression, at the earlier instant, in a freshly executed module
            with _sched.real_run_module(min(earlier, now), fresh=True) as run0:
                try:
                    run0.get_task_delay(ScheduledTask(task_name="t0", labels={}, args=[], kwargs={}, cron=task.cron, cron_offset=off_e))
                except Exception as exc:  # noqa: BLE001
                    c.check(False, "unexpected_exception", exc=repr(exc))
                    return
        with _sched.real_run_module(now, fresh=earlier is None) as run:
            try:
                r = run.get_task_delay(task)
            except Exception as exc:  # noqa: BLE001
                c.check(False, "unexpected_exception", exc=repr(exc))
                return
        c.event(label, task.cron, "result", r, "expected wall", str(wall))
        if r is not None and r != 0:
            c.check(False, "cron_result_not_0_or_None", result=r)
        c.check((r == 0) == want_due, "cron_due_iff_match", expr=task.cron, result=r, expected_due=want_due, now=now, td=td, zone=zone, kind=kind)


TD_SAMPLES = [0, 2 * 3600 * US, -3 * 3600 * US, 25 * 3600 * US, -26 * 3600 * US, 90 * MIN, -(5 * 3600 + 45 * 60) * US, 1, -1, 86400 * US, 999_999]
NOW_SAMPLES = [1_700_000_000 * US + 123, 1_709_251_199 * US + 999_999, 1_711_846_800 * US, 951_782_400 * US + 30 * US]


def boundary(c: sym.Ctx, case: Any) -> None:
    """Model boundary: the symbolic harness hands get_task_delay a duck-typed schedule; here sampled concrete offsets and instants
    go through the real ScheduledTask model (its validators / normalisation) into the real function."""
    c.cover("model_boundary")
    kind = case["kind"]
    now = NOW_SAMPLES[c.choose(len(NOW_SAMPLES), "now")]
    shape = c.choose(["full", "minute", "hour"], "expression_shape")
    if kind == "td":
        _concrete(c, "td", now, TD_SAMPLES[c.choose(len(TD_SAMPLES), "td")], ZONES[0], None, shape)
    elif kind == "zone":
        zone = ZONES[c.choose(len(ZONES), "zone")]
        _concrete(c, "zone", now, 0, zone, None, shape)
    else:
        _concrete(c, "none", now, 0, ZONES[0], None, shape)


HARNESSES = {"harness": harness, "boundary": boundary}


def _zone_candidates() -> List[Tuple[str, int]]:
    import pytz

    out: List[Tuple[str, int]] = []
    lo, hi = real_dt.datetime(2015, 1, 1), real_dt.datetime(2035, 1, 1)
    for name in ZONES:
        tz = pytz.timezone(name)
        trans = [t for t in getattr(tz, "_utc_transition_times", []) if lo <= t <= hi]
        for t in trans[:: max(1, len(trans) // 12)]:
            base = (t - _sched.EPOCH) // real_dt.timedelta(microseconds=1)
            for d_min in (-24 * 60, -11 * 60, -10 * 60 - 30, -5 * 60, -60, -30, -1, 0, 1, 29, 30, 59, 60, 5 * 60, 10 * 60 + 30, 11 * 60, 13 * 60):
                out.append((name, base + d_min * MIN + 17 * US + 250_000))
        out.append((name, 1_700_000_000 * US))
    return out


def confirm(f: Dict[str, Any]) -> Tuple[bool, Any]:
    """Default concrete replay; for the zone case the uninterpreted zone table is instantiated
    with real zones and instants around their DST transitions (2015-2035)."""
    tries: List[Dict[str, Any]] = [dict(f["assignment"])]
    if f["case"]["kind"] == "zone":
        for name, inst in _zone_candidates():
            tries.append({**f["assignment"], "zone_name": name, "now": inst, "earlier": inst})
            if dict(map(tuple, f["choices"])).get("second_evaluation_in_the_same_process"):
                for back in (30 * MIN, 2 * 3600 * US, 5 * 3600 * US, 11 * 3600 * US):
                    tries.append({**f["assignment"], "zone_name": name, "now": inst, "earlier": inst - back})
    elif f["case"]["kind"] == "td":
        a = f["assignment"]
        for now in (a.get("now", 0), 1_700_000_000 * US + 123, 1_709_251_199 * US):
            for td in (a.get("td", 0), -3 * 3600 * US, 25 * 3600 * US, -26 * 3600 * US, 90 * MIN, -(5 * 3600 + 45 * 60) * US + 1):
                tries.append({**a, "now": now, "td": td})
    for a in tries:
        rep = sym.replay(boundary if f.get("harness") == "boundary" else harness, f["case"], a, f["choices"])
        labels = [g["label"] for g in rep["failures"]]
        if f["label"] in labels or (labels and f["label"] != "unexpected_exception"):
            return True, {"reproduced": labels[0], "with": a, "events": rep["events"][-6:], "tried": len(tries)}
    return False, {"wanted": f["label"], "tried": len(tries)}


def extra(tier: str, seed: int) -> List[Dict[str, Any]]:
    n, bad = dtmodel.validate(4000 if tier == "quick" else 40000, seed)
    return [{"name": f"datetime model differential validation ({n} comparisons)", "verdict": "unsat" if not bad else "mismatch",
             "expected": "unsat", "solver": "differential test vs CPython datetime", "time_s": 0, "mismatches": bad}]
