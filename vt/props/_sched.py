"""Shared plumbing for the scheduler properties (C13, C14, C15): symbolic clone of
taskiq.cli.scheduler.run and concrete-mode patching of the real module."""
from __future__ import annotations

import contextlib
import datetime as real_dt
import types
from typing import Any, Iterator, Optional

from vt import dtmodel
from vt.models import vt_isinstance
from vt.world import World

_WORLD: Optional[World] = None
_CLONE: Optional[types.ModuleType] = None


def sym_run_module() -> types.ModuleType:
    """taskiq/cli/scheduler/run.py re-executed with the integer time model (once per process)."""
    global _WORLD, _CLONE
    # re-executed for every path: module-level state of run.py (caches a change may introduce) must not leak between paths
    if _WORLD is not None:
        _WORLD.dispose()
    if True:
        _WORLD = World()
        _CLONE = _WORLD.clone(
            "taskiq.cli.scheduler.run",
            pre={"int": dtmodel.vt_int_dt, "isinstance": vt_isinstance},
            post={"datetime": dtmodel.DT, "timedelta": dtmodel.TD},
        )
    m = _CLONE
    m.pytz = dtmodel.PytzModel()
    m.is_now = dtmodel.IsNowModel()
    return m


EPOCH = real_dt.datetime(1970, 1, 1)
EPOCH_UTC = EPOCH.replace(tzinfo=real_dt.timezone.utc)


def real_from_us(us: int, off: Optional[int] = None) -> real_dt.datetime:
    """real datetime for a model value (naive wall clock if off is None, else aware with fixed offset)."""
    if off is None:
        return EPOCH + real_dt.timedelta(microseconds=us)
    tz = real_dt.timezone(real_dt.timedelta(microseconds=off))
    return (EPOCH_UTC + real_dt.timedelta(microseconds=us)).astimezone(tz)


def frozen_datetime(now_us: int, local_off_us: int = 0) -> type:
    """datetime subclass whose now()/utcnow() return a fixed instant (host zone = UTC+local_off)."""

    class Frozen(real_dt.datetime):
        @classmethod
        def now(cls, tz: Any = None) -> Any:  # type: ignore[override]
            utc = EPOCH_UTC + real_dt.timedelta(microseconds=now_us)
            if tz is None:
                return (EPOCH + real_dt.timedelta(microseconds=now_us + local_off_us))
            return utc.astimezone(tz)

        @classmethod
        def utcnow(cls) -> Any:  # type: ignore[override]
            return EPOCH + real_dt.timedelta(microseconds=now_us)

    return Frozen


@contextlib.contextmanager
def real_run_module(now_us: int, local_off_us: int = 0, fresh: bool = False) -> Iterator[types.ModuleType]:
    """the real taskiq.cli.scheduler.run with a frozen clock (concrete replay); `fresh` re-executes the module first, so
    that module-level state left by earlier evaluations in this process (caches a change may introduce) is gone."""
    import importlib
    import os
    import time

    import taskiq.cli.scheduler.run as run

    if fresh:
        run = importlib.reload(run)

    old = run.datetime
    old_tz = os.environ.get("TZ")
    run.datetime = frozen_datetime(now_us, local_off_us)  # type: ignore[misc]
    # host zone = fixed offset (POSIX TZ: sign inverted), so naive<->aware conversions inside
    # CPython (astimezone() on naive values) use the same host offset as the model
    secs = int(local_off_us) // 1_000_000
    sign = "-" if secs >= 0 else "+"
    a = abs(secs)
    os.environ["TZ"] = f"VTZ{sign}{a // 3600:02d}:{(a // 60) % 60:02d}:{a % 60:02d}"
    time.tzset()
    try:
        yield run
    finally:
        run.datetime = old  # type: ignore[misc]
        if old_tz is None:
            os.environ.pop("TZ", None)
        else:
            os.environ["TZ"] = old_tz
        time.tzset()
