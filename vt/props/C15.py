"""C15 -- the scheduler loop sends each due schedule once per occurrence, minute after minute.

Real code executed: run_scheduler_loop, delayed_send, get_all_schedules, get_schedules, get_task_delay, to_tz_aware
(taskiq/cli/scheduler/run.py re-executed from source with the integer time model and a symbolic-time event simulator in place of
asyncio).  Symbolic (z3 Int, microseconds): start instant, one-shot time T, host zone offset (whole minutes), the lateness of every
sleep wake-up, the duration of every source listing; uninterpreted: cron matching per minute.
Choices: which pending timer fires next (constrained to be a minimal wake time), failures of get_schedules / sends, schedule set.
"""
from __future__ import annotations

import logging
import types
from typing import Any, Dict, List, Optional

import z3

from vt import dtmodel, sym
from vt.dtmodel import DT, MIN, US
from vt.props import _sched
from vt.sym import SymInt, mkint

ID = "C15"
CROSSCHECK = 3  # thorough tier: obligations per case re-decided by the cvc5 binary
LEVEL = "model_checking"
TECHNIQUE = "bounded symbolic model checking of the real run_scheduler_loop/delayed_send on a symbolic-time event simulator: start instant, one-shot time, wake-up lateness and listing durations as z3 Ints; timer order as solver-constrained choices"
EXPLANATION = (
    "Bounded model checking by path-wise symbolic execution of the real scheduler loop: asyncio is replaced by a discrete-event "
    "simulator whose clock is a z3 integer, so the start instant (any microsecond), the one-shot target time, the lateness of every "
    "wake-up (<= 200 ms), the duration of each source listing (<= 2 s) are symbolic; the order in which "
    "pending sleeps expire is a choice constrained by the solver to be a minimal wake-up time.  For 3 (quick) / 5 (thorough) polls z3 "
    "proves: polls happen at start and then in consecutive minutes at the minute boundary; each cron schedule is sent exactly once per "
    "poll iff its expression matches the poll's minute; a one-shot is never sent early, is sent within 1 s + lateness, and failures of "
    "a listing or a send stay local.  The double send of a one-shot near a minute boundary is a recorded known finding."
)
ASSUMPTIONS = [
    "host UTC offset is a whole number of minutes (minute boundaries of local time and UTC coincide)",
    "wake-up lateness of asyncio.sleep <= 200 ms, listing all sources takes <= 2 s per poll, computation between suspensions takes no time",
    "a source stops listing a one-shot entry once it has been sent (LabelScheduleSource.post_send behaviour); cron matching is a function of the wall-clock minute",
    "in the symbolic-time harness TaskiqScheduler.on_ready is a recording stub; a second harness composes the loop with the real on_ready / AsyncKicker at concrete instants",
]
TRUSTED = ["z3 5.1 (UFLIA)", "vt.dtmodel", "event simulator in this file", "vt.sym explorer"]
REQUIRED_COVERS = ["two_zones", "real_scheduler", "real_one_shot_due", "slow_send", "cron_sent", "cron_not_sent", "one_shot_sent_with_delay", "one_shot_sent_immediately", "one_shot_left_for_later",
                   "source_failed", "send_failed", "three_polls"]

logging.disable(logging.CRITICAL)
import warnings  # noqa: E402

warnings.filterwarnings("ignore", category=RuntimeWarning)
LAT = 200_000        # max lateness of a wake-up (us)
LIST_MAX = 2 * US    # max duration of one get_schedules() call
EPS = 1_000          # max drift between consecutive clock reads
SEND_MAX = 3 * US    # max duration of one send (kick) in the slow_send cases


def bounds(tier: str) -> Dict[str, Any]:
    return {"polls": "quick: 3 (one schedule) / 2 (combined); thorough: 5 (cron), 4 (one-shot), 3 (combined)", "sources": "1..2", "schedules": "1 cron + 1 one-shot (+ 1 cron on a second source)",
            "start, T": "unbounded Int us", "lateness": f"<= {LAT} us", "listing": f"<= {LIST_MAX} us"}


def cases(tier: str, hname: str = "harness") -> List[Any]:
    if hname == "real_scheduler":
        return [{"start_s": st, "kick_s": k} for st in (0.4, 30.5, 58.7) for k in (0.0, 1.5, 4.0)]
    out = []
    plan = ({"cron": 3, "oneshot": 3, "both": 2, "two_sources": 2, "cron_td": 2} if tier == "quick"
            else {"cron": 5, "oneshot": 4, "both": 3, "two_sources": 3, "cron_td": 3})
    for sched, polls in plan.items():
        for fail in ("none", "source", "send"):
            out.append({"polls": polls, "sched": sched, "fail": fail})
    out.append({"polls": 3, "sched": "cron", "fail": "none", "slow_send": True})
    # two schedules with the same expression, one evaluated in a named zone and one in UTC
    out.append({"polls": 2 if tier == "quick" else 3, "sched": "two_zones", "fail": "none"})
    return out


class StopSim(BaseException):
    pass


class SleepReq:
    def __init__(self, d: Any) -> None:
        self.d = d

    def __await__(self) -> Any:
        yield self


class SimTask:
    def __init__(self, coro: Any, name: str, spawn_poll: int = -1) -> None:
        self.coro = coro
        self.name = name
        self.spawn_poll = spawn_poll
        self.done = False
        self.exc: Optional[BaseException] = None
        self.cbs: List[Any] = []

    def add_done_callback(self, cb: Any) -> None:
        self.cbs.append(cb)


def smax(a: Any, b: Any) -> Any:
    if isinstance(a, SymInt) or isinstance(b, SymInt):
        return mkint(z3.If(dtmodel._zz(a) >= dtmodel._zz(b), dtmodel._zz(a), dtmodel._zz(b)))
    return max(a, b)


class Sim:
    """symbolic-time discrete-event simulator standing in for the asyncio loop"""

    CancelledError = Exception

    def __init__(self, c: sym.Ctx, start: Any) -> None:
        self.c = c
        self.cur = start
        self.ready: List[SimTask] = []
        self.sleepers: List[Any] = []
        self.n = 0
        self.log: List[Any] = []
        self.current: Optional[SimTask] = None
        self.poll_index = -1

    def define(self, prefix: str, expr: Any) -> Any:
        """name a time expression (keeps terms small: later expressions refer to the name)"""
        if not isinstance(expr, SymInt):
            return expr
        self.n += 1
        v = self.c.int(f"{prefix}{self.n}")
        self.c.assume(v == expr)
        return v

    # --- asyncio facade used by the cloned module
    def get_event_loop(self) -> "Sim":
        return self

    def create_task(self, coro: Any) -> SimTask:
        self.n += 1
        t = SimTask(coro, f"task{self.n}", self.poll_index)
        self.ready.append(t)
        return t

    async def sleep(self, d: Any) -> None:
        await SleepReq(d)

    async def gather(self, *aws: Any) -> List[Any]:
        return [await a for a in aws]

    def fresh(self, prefix: str, hi: int) -> Any:
        self.n += 1
        return self.c.int(f"{prefix}{self.n}", 0, hi)

    def read_clock(self) -> Any:
        return self.cur  # time advances only at sleeps (lateness) and listings (duration)

    def advance(self, d: Any) -> None:
        self.cur = self.define("t", self.cur + d)

    def _dur(self, d: Any) -> Any:
        if isinstance(d, dtmodel.Seconds):
            us = d.us
        elif isinstance(d, (int, SymInt)) and not isinstance(d, bool):
            us = d * US
        elif isinstance(d, float):
            us = int(d * US)
        else:
            raise sym.HarnessError(f"sleep({d!r}) not modelled")
        return smax(us, 0)

    def step(self, t: SimTask) -> None:
        self.current = t
        try:
            req = t.coro.send(None)
        except StopIteration:
            t.done = True
        except StopSim:
            raise
        except Exception as exc:  # noqa: BLE001
            t.done = True
            t.exc = exc
            self.log.append(("task_failed", t.name, type(exc).__name__))
        else:
            if not isinstance(req, SleepReq):
                raise sym.HarnessError(f"unexpected await {req!r}")
            wake = self.define("w", self.cur + self._dur(req.d) + self.fresh("lat", LAT))
            self.sleepers.append((wake, t))
            return
        for cb in t.cbs:
            cb(t)

    def run(self, main: Any) -> None:
        self.create_task(main)
        try:
            while True:
                while self.ready:
                    self.step(self.ready.pop(0))
                if not self.sleepers:
                    return
                k = self.c.choose(len(self.sleepers), "wake") if len(self.sleepers) > 1 else 0
                wake, t = self.sleepers.pop(k)
                for other, _ in self.sleepers:
                    self.c.assume(wake <= other)
                self.cur = self.define("t", smax(self.cur, wake))
                self.ready.append(t)
        except StopSim:
            return


def harness(c: sym.Ctx, case: Dict[str, Any]) -> None:
    if c.mode != "sym":
        return concrete(c, case)
    polls = case["polls"]
    start = c.int("start")
    local_off = c.int("host_off_min", -14 * 60, 14 * 60) * MIN
    T = c.int("T")
    sim = Sim(c, start)

    class SimClock(dtmodel.Clock):
        def read(self) -> Any:
            return sim.read_clock()

    dtmodel.CLOCK = SimClock(start, local_off=local_off)
    run = _sched.sym_run_module()
    run.asyncio = sim
    ev: List[Any] = []
    sent_oneshot = {"n": 0}
    poll_no = {"n": 0}
    fail_source_at = c.choose(polls, "fail_source_at") if case["fail"] == "source" else -1
    fail_send_no = c.choose(3, "fail_send_no") if case["fail"] == "send" else -1
    send_no = {"n": 0}
    has_cron = case["sched"] in ("cron", "both", "two_sources", "cron_td", "two_zones")
    has_one = case["sched"] in ("oneshot", "both")
    cron_off: Any = dtmodel.TD(_us=c.int("cronoff")) if case["sched"] == "cron_td" else None
    two_zones = case["sched"] == "two_zones"
    if two_zones:
        c.cover("two_zones")
        cron_off = "Z/One"

    class Source:
        def __init__(self, name: str) -> None:
            self.name = name

        async def get_schedules(self) -> List[Any]:
            if self.name == "s0":
                if poll_no["n"] >= polls:
                    raise StopSim()
                poll_no["n"] += 1
                sim.poll_index = poll_no["n"] - 1
            k = poll_no["n"] - 1
            t_begin = sim.cur
            if self.name == "s0":
                sim.advance(sim.fresh("list", LIST_MAX))
            ev.append(("poll", self.name, k, t_begin))
            if self.name == "s0" and k == fail_source_at:
                ev.append(("source_failed", self.name, k, sim.cur))
                raise RuntimeError("source down")
            out = []
            if self.name == "s0":
                if has_cron:
                    out.append(types.SimpleNamespace(cron="EXPR0", cron_offset=cron_off, time=None, task_name="c0", schedule_id="cron0"))
                if has_one and sent_oneshot["n"] == 0:
                    out.append(types.SimpleNamespace(cron=None, cron_offset=None, time=DT(T, 0, True, dtmodel.UTC), task_name="o", schedule_id="one"))
            else:
                out.append(types.SimpleNamespace(cron="EXPR0" if two_zones else "EXPR1", cron_offset=None, time=None, task_name="c1", schedule_id="cron1"))
            ev.append(("listed", self.name, k, [s.schedule_id for s in out], sim.cur))
            return out

    sources = [Source("s0")] + ([Source("s1")] if case["sched"] in ("two_sources", "two_zones") else [])

    class Sched:
        def __init__(self) -> None:
            self.sources = sources

        async def on_ready(self, source: Any, task: Any) -> None:
            send_no["n"] += 1
            ev.append(("send", task.schedule_id, sim.cur, sim.current.spawn_poll if sim.current else -1, source.name))
            if case.get("slow_send"):
                await SleepReq(dtmodel.Seconds(sim.fresh("dur", SEND_MAX)))
                ev.append(("send_done", task.schedule_id, sim.cur))
            if send_no["n"] - 1 == fail_send_no:
                ev.append(("send_failed", task.schedule_id))
                raise RuntimeError("kick failed")
            if task.schedule_id == "one":
                sent_oneshot["n"] += 1

    try:
        sim.run(run.run_scheduler_loop(Sched()))
    except Exception as exc:  # noqa: BLE001
        c.check(False, "scheduler_loop_crashed", exc=repr(exc))
        return
    for e in ev:
        c.event(*e)
    check(c, case, ev, run.is_now, start, T, poll_no["n"], sim, cron_off, run.pytz)


def check(c: sym.Ctx, case: Dict[str, Any], ev: List[Any], is_now: Any, start: Any, T: Any, npolls: int, sim: Any, cron_off: Any = None,
          zones: Any = None) -> None:
    polls = case["polls"]
    if case.get("slow_send"):
        c.cover("slow_send")
    c.check(npolls == polls, "loop_keeps_polling", polls=npolls, want=polls)
    if npolls >= 3:
        c.cover("three_polls")
    p = [e[3] for e in ev if e[0] == "poll" and e[1] == "s0"]
    # q[k]: instant at which poll k finished listing = instant at which schedules are evaluated and the next sleep is computed
    q = {e[2]: (e[4] if e[0] == "listed" else e[3]) for e in ev if e[0] in ("listed", "source_failed") and e[1] == "s0"}
    slack = LAT + LIST_MAX
    # 1. polls: at start, then at every minute boundary; evaluations fall in consecutive minutes
    if p:
        c.check(p[0] == start, "first_poll_at_start")
    for k in range(1, len(p)):
        if k - 1 not in q:
            continue
        boundary = q[k - 1] - (q[k - 1] % MIN) + MIN
        c.check((p[k] >= boundary) & (p[k] <= boundary + LAT), "poll_at_next_minute_boundary", k=k)
        if k in q:
            c.check(q[k] // MIN == q[k - 1] // MIN + 1, "polls_evaluate_consecutive_minutes", k=k)
    if any(e[0] == "source_failed" for e in ev):
        c.cover("source_failed")
    if any(e[0] == "send_failed" for e in ev):
        c.cover("send_failed")
    # 2. cron: per poll, exactly one send iff the expression matches the minute in which that poll evaluated it
    calls = list(is_now.calls)
    for src, sid, expr in (("s0", "cron0", "EXPR0"), ("s1", "cron1", "EXPR0" if case["sched"] == "two_zones" else "EXPR1")):
        listed_at = [x for x in ev if x[0] == "listed" and x[1] == src and sid in x[3]]
        for e in listed_at:
            k = e[2]
            if k not in q:
                continue
            pk = [x[3] for x in ev if x[0] == "poll" and x[1] == "s0" and x[2] == k][0]
            sends = [x for x in ev if x[0] == "send" and x[1] == sid and x[3] == k]
            # the expectation is stated on the poll alone (the instant the loop evaluates its schedules, shifted by the schedule's
            # offset), not on how or how often the code consults pycron: caching or truncating to the minute is the code's business
            if cron_off is None or sid != "cron0":
                shift: Any = 0
            elif isinstance(cron_off, str):
                shift = zones.timezone(cron_off).offset_at_utc(q[k])  # the zone's (uninterpreted) utcoffset at that instant
            else:
                shift = cron_off.us
            want = is_now.match(expr, (q[k] + shift) // MIN)
            n = len(sends)
            c.check(n <= 1, "cron_sent_at_most_once_per_poll", sid=sid, poll=k, n=n)
            if n == 1:
                c.cover("cron_sent")
                c.check(want, "cron_sent_only_in_matching_minute", sid=sid, poll=k)
                c.check((sends[0][2] >= pk) & (sends[0][2] <= pk + slack), "cron_send_happens_at_the_poll", sid=sid, poll=k)
            elif n == 0:
                c.cover("cron_not_sent")
                c.check(~want if isinstance(want, sym.SymBool) else (not want), "cron_sent_in_every_matching_minute", sid=sid, poll=k)
    # 3. one-shot
    one = [x for x in ev if x[0] == "send" and x[1] == "one"]
    listed = [x for x in ev if x[0] == "listed" and x[1] == "s0" and "one" in x[3]]
    for s in one:
        k = s[3]
        c.check(s[2] >= T, "one_shot_never_sent_before_its_time", send=s[2], T=T)
    if one:
        first = one[0]
        pk = [x[3] for x in ev if x[0] == "poll" and x[1] == "s0" and x[2] == first[3]][0]
        late_ok = (first[2] < smax(T, pk) + US + slack)
        c.check(late_ok, "one_shot_sent_within_one_second_after_its_time", send=first[2], T=T, poll=pk)
        if bool(T > pk + slack):
            c.cover("one_shot_sent_with_delay")
        else:
            c.cover("one_shot_sent_immediately")
    failed_sends = [x for x in ev if x[0] == "send_failed" and x[1] == "one"]
    if len(one) > 1 and not failed_sends:
        polls_of = sorted(s[3] for s in one)
        c.check(False, "one_shot_sent_exactly_once", sends=len(one), polls=polls_of, consecutive=polls_of == list(range(polls_of[0], polls_of[0] + len(polls_of))))
    # not missed: listed at poll k, T within that poll's horizon -> a send was spawned by that poll
    for e in listed[:1]:
        k = e[2]
        pk = q[k]
        horizon_lo = pk - (pk % MIN) + MIN + US          # horizon at the instant the poll evaluated the schedule
        spawned = [s for s in one if s[3] == k]
        due = T <= horizon_lo
        if not spawned:
            # either it is legitimately left for later, or the send is still pending when the exploration stops
            pending = any(True for w, t in sim.sleepers)
            if not pending:
                c.cover("one_shot_left_for_later")
                c.check(~due if isinstance(due, sym.SymBool) else (not due), "one_shot_due_within_horizon_is_scheduled", poll=k, T=T, pk=pk)


def signature(f: Dict[str, Any]) -> str:
    sig = f["label"]
    if sig == "one_shot_sent_exactly_once":
        i = f["info"]
        sig += f":sends={i.get('sends')}:consecutive_polls={i.get('consecutive')}"
    return sig


def confirm(f: Dict[str, Any]) -> Any:
    """Concrete replay on the real module.  The solver's model may sit exactly on a tie between two timers (same wake-up
    instant), which the real loop breaks FIFO; nearby assignments (send durations / lateness nudged by up to 1 ms) are tried too."""
    if f.get("harness") == "real_scheduler":
        rep = sym.replay(real_scheduler, f["case"], f["assignment"], f["choices"])
        got = [signature(g) for g in rep["failures"]]
        return (signature(f) in got), {"reproduced" if signature(f) in got else "got": got, "events": rep["events"][-30:]}
    base = dict(f["assignment"])
    variants = [base]
    for bump in (1, 1000):
        v = dict(base)
        for k in list(v):
            if k.startswith("dur"):
                v[k] = min(int(v[k]) + bump, SEND_MAX)
        variants.append(v)
        v2 = dict(base)
        for k in list(v2):
            if k.startswith("lat"):
                v2[k] = min(int(v2[k]) + bump, LAT)
        variants.append(v2)
    if "T" in base:
        # ... and the one-shot's time moved off a tie with a minute boundary / a poll's wake-up
        for dT in (1, 1000, 500_000, -1, -1000, 1_000_001):
            variants.append({**base, "T": int(base["T"]) + dT})
    want = signature(f)
    cron_labels = {"cron_sent_in_every_matching_minute", "cron_sent_only_in_matching_minute"}
    for v in variants:
        rep = sym.replay(harness, f["case"], v, f["choices"])
        got = [signature(g) for g in rep["failures"]]
        # the replay instantiates the uninterpreted matcher with one real expression, so "sent in a minute that does not match"
        # and "not sent in a minute that matches" show up as the same failed obligation there
        if want in got or (want in cron_labels and cron_labels & set(got)):
            return True, {"reproduced": want, "assignment": {k: x for k, x in v.items() if not k.startswith(("_", "t", "w"))}, "events": rep["events"][-30:]}
    return False, {"wanted": want, "got": got, "events": rep["events"][-30:]}


# ------------------------------------------------------------------------- concrete replay on the real module


def concrete(c: sym.Ctx, case: Dict[str, Any]) -> None:
    """Replay with concrete start / T / latencies on the real run.py, real datetime and real asyncio timers (virtual clock)."""
    import asyncio
    import datetime as real_dt

    from taskiq.scheduler.scheduled_task import ScheduledTask

    from vt.props._recv import VLoop

    a = c.assignment
    start = int(a.get("start", 0))
    T = int(a.get("T", 0))
    local = int(a.get("host_off_min", 0)) * MIN
    polls = case["polls"]
    lats = [int(v) for k, v in sorted(((int(k[3:]), v) for k, v in a.items() if k.startswith("lat")))]
    lists = [int(v) for k, v in sorted(((int(k[4:]), v) for k, v in a.items() if k.startswith("list")))]
    durs = [int(v) for k, v in sorted(((int(k[3:]), v) for k, v in a.items() if k.startswith("dur")))]
    loop = VLoop()
    loop.begin()
    ev: List[Any] = []
    fail_source_at = dict(c.fixed_choices).get("fail_source_at", -1) if case["fail"] == "source" else -1
    fail_send_no = dict(c.fixed_choices).get("fail_send_no", -1) if case["fail"] == "send" else -1

    def now_us() -> int:
        return start + int(round(loop.time() * US))

    class Frozen(real_dt.datetime):
        @classmethod
        def now(cls, tz: Any = None) -> Any:  # type: ignore[override]
            utc = _sched.EPOCH_UTC + real_dt.timedelta(microseconds=now_us())
            if tz is None:
                return _sched.EPOCH + real_dt.timedelta(microseconds=now_us() + local)
            return utc.astimezone(tz)

    lat_i = {"n": 0}
    real_sleep = asyncio.sleep

    class AsyncioWithLatency:
        def __getattr__(self, name: str) -> Any:
            return getattr(asyncio, name)

        async def sleep(self, d: float) -> None:
            lat = lats[lat_i["n"]] if lat_i["n"] < len(lats) else 0
            lat_i["n"] += 1
            await real_sleep(max(float(d), 0.0) + lat / US)

    import taskiq.cli.scheduler.run as run

    has_cron = case["sched"] in ("cron", "both", "two_sources", "cron_td", "two_zones")
    has_one = case["sched"] in ("oneshot", "both")
    two_zones = case["sched"] == "two_zones"
    state = {"polls": 0, "sent_one": 0, "sends": 0, "lists": 0}
    # cron expression that matches every minute is enough for the replay of one-shot / loop findings; with an offset the
    # expression pins day and month of the shifted clock at the first poll
    cron_expr = "* * * * *"
    cron_td = None
    if case["sched"] == "cron_td":
        cron_td = real_dt.timedelta(microseconds=int(a.get("cronoff", 0)))
        w0 = _sched.EPOCH_UTC + real_dt.timedelta(microseconds=start + (lists[0] if lists else 0)) + cron_td
        cron_expr = f"* * {w0.day} {w0.month} *"
    zone_name = "Asia/Kolkata"
    if two_zones:
        import zoneinfo

        # both schedules carry the expression that pins the hour of the zone's wall clock at the first poll
        z0 = (_sched.EPOCH_UTC + real_dt.timedelta(microseconds=start + (lists[0] if lists else 0))).astimezone(zoneinfo.ZoneInfo(zone_name))
        cron_expr = f"* {z0.hour} * * *"

    class Source:
        def __init__(self, name: str) -> None:
            self.name = name

        async def get_schedules(self) -> List[Any]:
            if self.name == "s0":
                if state["polls"] >= polls:
                    raise asyncio.CancelledError()
                state["polls"] += 1
            k = state["polls"] - 1
            t0 = now_us()
            d = lists[state["lists"]] if state["lists"] < len(lists) else 0
            state["lists"] += 1
            if d:
                await real_sleep(d / US)
            ev.append(("poll", self.name, k, t0))
            if self.name == "s0" and k == fail_source_at:
                ev.append(("source_failed", self.name, k, now_us()))
                raise RuntimeError("source down")
            out = []
            if self.name == "s0":
                if has_cron:
                    out.append(ScheduledTask(task_name="c0", labels={}, args=[], kwargs={}, cron=cron_expr, schedule_id="cron0",
                                             cron_offset=zone_name if two_zones else cron_td))
                if has_one and state["sent_one"] == 0:
                    out.append(ScheduledTask(task_name="o", labels={}, args=[], kwargs={}, schedule_id="one",
                                             time=_sched.EPOCH_UTC + real_dt.timedelta(microseconds=T)))
            else:
                out.append(ScheduledTask(task_name="c1", labels={}, args=[], kwargs={}, cron=cron_expr, schedule_id="cron1"))
            ev.append(("listed", self.name, k, [s.schedule_id for s in out], now_us()))
            return out

    sources = [Source("s0")] + ([Source("s1")] if case["sched"] in ("two_sources", "two_zones") else [])

    class Sched:
        def __init__(self) -> None:
            self.sources = sources

        async def on_ready(self, source: Any, task: Any) -> None:
            state["sends"] += 1
            cur = asyncio.current_task()
            ev.append(("send", task.schedule_id, now_us(), getattr(cur, "_vt_spawn_poll", state["polls"] - 1), source.name))
            if case.get("slow_send"):
                d = durs[state["sends"] - 1] if state["sends"] - 1 < len(durs) else 0
                await real_sleep(d / US)
            if state["sends"] - 1 == fail_send_no:
                raise RuntimeError("kick failed")
            if task.schedule_id == "one":
                state["sent_one"] += 1

    def factory(lp: Any, coro: Any, **kw: Any) -> Any:
        t = asyncio.Task(coro, loop=lp, **kw)
        t._vt_spawn_poll = state["polls"] - 1  # type: ignore[attr-defined]
        return t

    loop.set_task_factory(factory)
    old_dt, old_as = run.datetime, run.asyncio
    run.datetime = Frozen  # type: ignore[misc]
    run.asyncio = AsyncioWithLatency()  # type: ignore[assignment]
    try:
        main = loop.create_task(run.run_scheduler_loop(Sched()))  # type: ignore[arg-type]
        for _ in range(2000):
            loop.settle()
            if main.done():
                break
            if loop.next_timer() is None:
                break
            loop.tick()
    finally:
        run.datetime, run.asyncio = old_dt, old_as  # type: ignore[misc]
        loop.shutdown()
    for e in ev:
        c.event(*e)
    one = [x for x in ev if x[0] == "send" and x[1] == "one"]
    for s in one:
        c.check(s[2] >= T, "one_shot_never_sent_before_its_time", send=s[2], T=T)
    if one:
        pk = [x[3] for x in ev if x[0] == "poll" and x[1] == "s0" and x[2] == one[0][3]][0]
        c.check(one[0][2] < max(T, pk) + US + LAT + LIST_MAX + 40 * EPS, "one_shot_sent_within_one_second_after_its_time", send=one[0][2], T=T)
    if len(one) > 1:
        polls_of = sorted(s[3] for s in one)
        c.check(False, "one_shot_sent_exactly_once", sends=len(one), polls=polls_of, consecutive=polls_of == list(range(polls_of[0], polls_of[0] + len(polls_of))))
    p = [e[3] for e in ev if e[0] == "poll" and e[1] == "s0"]
    qc = {e[2]: (e[4] if e[0] == "listed" else e[3]) for e in ev if e[0] in ("listed", "source_failed") and e[1] == "s0"}
    c.check(len(p) == polls, "loop_keeps_polling", polls=len(p), want=polls)
    for k in range(1, len(p)):
        if k - 1 not in qc:
            continue
        boundary = qc[k - 1] - (qc[k - 1] % MIN) + MIN
        c.check(boundary <= p[k] <= boundary + LAT + 40 * EPS, "poll_at_next_minute_boundary", k=k, p=p)
    for sid in ("cron0", "cron1"):
        for e in [x for x in ev if x[0] == "listed" and sid in x[3]]:
            n = sum(1 for x in ev if x[0] == "send" and x[1] == sid and x[3] == e[2])
            c.check(n <= 1, "cron_sent_at_most_once_per_poll", sid=sid, poll=e[2], n=n)
            if two_zones:
                import zoneinfo

                pk = [x[3] for x in ev if x[0] == "poll" and x[1] == "s0" and x[2] == e[2]][0]
                u0 = _sched.EPOCH_UTC + real_dt.timedelta(microseconds=pk)
                u1 = u0 + real_dt.timedelta(seconds=3)
                zone = zoneinfo.ZoneInfo(zone_name) if sid == "cron0" else real_dt.timezone.utc
                if u0.astimezone(zone).hour != u1.astimezone(zone).hour:
                    continue  # the poll straddles an hour boundary of that clock
                due = u0.astimezone(zone).hour == z0.hour
                c.check(n == (1 if due else 0), "cron_sent_only_in_matching_minute" if not due else "cron_sent_in_every_matching_minute",
                        sid=sid, poll=e[2], expr=cron_expr, clock=str(u0.astimezone(zone)), sends=n)
                continue
            if cron_td is not None and sid == "cron0":
                pk = [x[3] for x in ev if x[0] == "poll" and x[1] == "s0" and x[2] == e[2]][0]
                wk = _sched.EPOCH_UTC + real_dt.timedelta(microseconds=pk) + cron_td
                if (wk.day, wk.month) != (w0.day, w0.month) or ((wk + real_dt.timedelta(seconds=3)).day != wk.day):
                    continue  # the shifted clock left the pinned day
                c.check(n == 1, "cron_sent_in_every_matching_minute", sid=sid, poll=e[2], offset=str(cron_td), shifted_clock=str(wk))
                continue
            c.check(n == 1, "cron_sent_in_every_matching_minute", sid=sid, poll=e[2])


def real_scheduler(c: sym.Ctx, case: Dict[str, Any]) -> None:
    """Composition with the real TaskiqScheduler.on_ready / AsyncKicker on real asyncio timers (virtual clock, concrete instants):
    a slow send of one schedule must not delay or drop the others."""
    import asyncio
    import datetime as real_dt

    from taskiq import AsyncBroker
    from taskiq.abc.schedule_source import ScheduleSource
    from taskiq.scheduler.scheduled_task import ScheduledTask
    from taskiq.scheduler.scheduler import TaskiqScheduler

    from vt.props._recv import VLoop

    import taskiq.cli.scheduler.run as run

    c.cover("real_scheduler")
    base = 1_900_000_000 * US - (1_900_000_000 * US) % MIN  # a minute boundary
    start = base + int(case["start_s"] * US)
    t_off = c.choose([2 * US, 20 * US + 250_000, 61 * US], "one_shot_after_boundary")
    T = base + MIN + t_off
    slow = c.choose(["cron0", "one", "none"], "slow_schedule")
    polls = 3
    loop = VLoop()
    loop.begin()
    ev: List[Any] = []

    def now_us() -> int:
        return start + int(round(loop.time() * US))

    class Frozen(real_dt.datetime):
        @classmethod
        def now(cls, tz: Any = None) -> Any:  # type: ignore[override]
            utc = _sched.EPOCH_UTC + real_dt.timedelta(microseconds=now_us())
            return utc.astimezone(tz) if tz is not None else utc.replace(tzinfo=None)

    class Broker(AsyncBroker):
        async def kick(self, message: Any) -> None:
            sid = message.labels.get("schedule_id")
            ev.append(("kick_begin", sid, now_us()))
            if sid == slow and case["kick_s"]:
                await asyncio.sleep(case["kick_s"])
            ev.append(("kick_end", sid, now_us()))

        async def listen(self) -> Any:  # pragma: no cover
            yield b""

    state = {"polls": 0, "sent_one": False}

    class Src(ScheduleSource):
        def __init__(self, name: str) -> None:
            self.name = name

        async def get_schedules(self) -> List[Any]:
            if self.name == "s0":
                if state["polls"] >= polls:
                    raise asyncio.CancelledError()
                state["polls"] += 1
                ev.append(("poll", state["polls"] - 1, now_us()))
                out = [ScheduledTask(task_name="c0", labels={}, args=[], kwargs={}, cron="* * * * *", schedule_id="cron0")]
                if not state["sent_one"]:
                    out.append(ScheduledTask(task_name="o", labels={}, args=[], kwargs={}, schedule_id="one",
                                             time=_sched.EPOCH_UTC + real_dt.timedelta(microseconds=T)))
                return out
            return [ScheduledTask(task_name="c1", labels={}, args=[], kwargs={}, cron="* * * * *", schedule_id="cron1")]

        def post_send(self, task: Any) -> None:
            if task.schedule_id == "one":
                state["sent_one"] = True

    broker = Broker()
    sched = TaskiqScheduler(broker, [Src("s0"), Src("s1")])
    old_dt = run.datetime
    run.datetime = Frozen  # type: ignore[misc]
    try:
        main = loop.create_task(run.run_scheduler_loop(sched))
        for _ in range(3000):
            loop.settle()
            if main.done() or loop.next_timer() is None:
                break
            loop.tick()
    finally:
        run.datetime = old_dt  # type: ignore[misc]
        loop.shutdown()
    for e in ev:
        c.event(*e)
    p = [e[2] for e in ev if e[0] == "poll"]
    c.check(len(p) == polls, "loop_keeps_polling", polls=len(p))
    for k in range(1, len(p)):
        c.check(p[k] // MIN == p[k - 1] // MIN + 1 and p[k] % MIN < US, "poll_at_next_minute_boundary", p=p)
    for sid in ("cron0", "cron1"):
        mins = [e[2] // MIN for e in ev if e[0] == "kick_begin" and e[1] == sid]
        want = [x // MIN for x in p]
        c.check(mins == want, "cron_sent_once_in_every_polled_minute", sid=sid, minutes=mins, polled=want, slow=slow, kick_s=case["kick_s"])
    one = [e[2] for e in ev if e[0] == "kick_begin" and e[1] == "one"]
    covered = p and T + 2 * US < p[-1] + MIN and T >= p[0]
    if covered:
        c.cover("real_one_shot_due")
        c.check(len(one) >= 1 and T <= one[0] < T + US + 50_000, "one_shot_sent_within_one_second_after_its_time", sends=one, T=T, slow=slow,
                kick_s=case["kick_s"])
        boundary = T - T % MIN
        if not (T - boundary <= US + 1):  # away from the recorded known finding (T within 1 s after a boundary)
            c.check(len(one) == 1, "one_shot_sent_exactly_once", sends=len(one), polls="real-scheduler", consecutive="n/a")


HARNESSES = {"harness": harness, "real_scheduler": real_scheduler}


def budget(tier: str) -> Dict[str, Any]:
    return {"max_paths": 2000000, "budget_s": 1500 if tier == "quick" else 3400}


def coverage_extra(results: Any, extra: Any) -> Dict[str, Any]:
    paths = sum(r["paths"] for r in results)
    return {"states": max(1, paths), "transitions": max(1, sum(r["queries"] for r in results)), "traces_validated_against_impl": 0,
            "note": "states = symbolic runs (each covers a region of start/T/latency values); counterexamples are replayed on the real module with real datetime/asyncio"}
