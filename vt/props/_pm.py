"""Process-manager laboratory (C17, C18): the real ProcessManager.start / prepare_workers / action handlers, re-executed from
source with fake Process / Queue / Event / sleep / os.kill / signal.signal.  The environment (deaths, SIGHUP, SIGINT/SIGTERM,
file changes, slow exits) acts at every tick boundary and is chosen by the explorer; max_fails is a symbolic integer."""
from __future__ import annotations

import logging
import signal as real_signal
import types
from typing import Any, Callable, Dict, List, Optional

from vt import sym
from vt.world import World

_W: Optional[types.ModuleType] = None
logging.disable(logging.CRITICAL)


class StopRun(BaseException):
    pass


def clone() -> types.ModuleType:
    global _W
    if _W is None:
        _W = World().clone("taskiq.cli.worker.process_manager")
    return _W


class Trace:
    def __init__(self) -> None:
        self.ev: List[Any] = []
        self.tick = 0
        self.procs: List["FakeProcess"] = []
        self.returned: Any = "<running>"
        self.fail_actions = 0
        self.shutdown_seen_at: Optional[int] = None


SIGNAL_OPTS = ("none", "hup", "term", "int", "file", "hup+term", "term+hup", "term+term")


def run(c: sym.Ctx, n_workers: int, depth: int, max_fails: Any, slow_exit: bool = True, first: Optional[int] = None, early_death: bool = False) -> Trace:
    pm = clone()
    tr = Trace()
    handlers: Dict[int, Callable[..., Any]] = {}
    pids = iter(range(1000, 100000))

    def rec(*e: Any) -> None:
        tr.ev.append((tr.tick,) + e)
        c.event(tr.tick, *e)

    class FakeProcess:
        def __init__(self, target: Any = None, kwargs: Any = None, name: str = "", daemon: bool = False) -> None:
            self.name = name
            import re

            mm = re.search(r"worker-(\d+)", name or "")  # the slot is what the manager numbers the process with, whatever else the name carries
            self.slot = int(mm.group(1)) if mm else -1
            self.pid: Optional[int] = None
            self.alive = False
            self.started = False
            self.term = False
            self.joined = False
            self.exitcode: Optional[int] = None
            self.reaped = False  # the OS has released the pid (after a successful wait): it may be re-used by any process
            tr.procs.append(self)

        def start(self) -> None:
            self.pid = next(pids)
            self.started = True
            self.alive = True
            rec("start", self.slot, self.pid)
            # a freshly started worker may crash before the manager looks at it again (once per run, after the initial start-up)
            if early_death and tr.tick >= 1 and not manager.get("early_death_used") and c.flag("dies_right_after_start"):
                manager["early_death_used"] = True
                self.alive = False
                self.exitcode = 1
                rec("env", "death", self.slot, self.pid)

        def terminate(self) -> None:
            self.term = True
            rec("terminate", self.slot, self.pid)

        def kill(self) -> None:
            self.term = True
            self.alive = False
            rec("kill_method", self.slot, self.pid)

        def join(self, timeout: Any = None) -> None:
            rec("join", self.slot, self.pid, timeout)
            if timeout is None:
                if self.alive and not self.term:
                    rec("join_would_block_forever", self.slot, self.pid)
                if self.alive:
                    self.exitcode = -15
                self.alive = False
                self.joined = True
                self.reaped = True
            else:
                # a bounded join: the old process may or may not have exited in time
                if self.alive and slow_exit and c.flag("exits_within_join_timeout") is False:
                    rec("join_timed_out", self.slot, self.pid)
                else:
                    if self.alive:
                        self.exitcode = -15
                    self.alive = False
                    self.joined = True

        def is_alive(self) -> bool:
            if self.started and not self.alive:
                self.reaped = True  # multiprocessing polls with waitpid(WNOHANG): a dead child is reaped here
            return self.alive

        def close(self) -> None:
            rec("close", self.slot, self.pid)

    class FakeQueue:
        def __init__(self, *a: Any) -> None:
            self.items: List[Any] = []

        def put(self, x: Any, *a: Any, **k: Any) -> None:
            self.items.append(x)

        def put_nowait(self, x: Any) -> None:
            self.items.append(x)

        def get(self, *a: Any, **k: Any) -> Any:
            x = self.items.pop(0)
            if type(x).__name__ == "ReloadOneAction" and not x.is_reload_all:
                tr.fail_actions += 1
                rec("dequeue_failure_restart", x.worker_num, tr.fail_actions)
            else:
                rec("dequeue", type(x).__name__, getattr(x, "worker_num", None))
            return x

        def get_nowait(self) -> Any:
            return self.get()

        def empty(self) -> bool:
            return not self.items

        def qsize(self) -> int:
            return len(self.items)

    class FakeEvent:
        def wait(self, timeout: Any = None) -> bool:
            return False

        def set(self) -> None:
            pass

        def is_set(self) -> bool:
            return False

    class FakeOS:
        def kill(self, pid: int, sig: int) -> None:
            owner = next((p for p in tr.procs if p.pid == pid), None)
            rec("os.kill", pid, int(sig), bool(owner is not None and owner.reaped))

        def __getattr__(self, name: str) -> Any:
            import os

            return getattr(os, name)

    class FakeSignal:
        SIGINT, SIGTERM, SIGHUP = real_signal.SIGINT, real_signal.SIGTERM, real_signal.SIGHUP

        def signal(self, signum: int, handler: Any) -> Any:
            handlers[int(signum)] = handler
            return None

        def __getattr__(self, name: str) -> Any:
            return getattr(real_signal, name)

    manager: Dict[str, Any] = {}

    def deliver(sig: str) -> None:
        if sig == "file":
            rec("env", "file_change")
            pm.schedule_workers_reload(manager["pm"].action_queue)
            return
        num = {"hup": real_signal.SIGHUP, "term": real_signal.SIGTERM, "int": real_signal.SIGINT}[sig]
        rec("env", "signal", sig)
        if sig in ("term", "int") and tr.shutdown_seen_at is None:
            tr.shutdown_seen_at = tr.tick
        h = handlers.get(int(num))
        if h is not None:
            h(int(num), None)

    def fake_sleep(_secs: Any) -> None:
        tr.tick += 1
        rec("tick")
        if tr.tick > depth:
            raise StopRun()
        workers = manager["pm"].workers
        for w in list(workers):
            if w.alive and w.term:
                # a process that was sent SIGTERM (terminate()) and not waited for exits on its own before the next tick;
                # this is an exit the manager caused, not an unexpected one
                w.alive = False
                w.exitcode = -15
                rec("exit_after_terminate", w.slot, w.pid)
        for i, w in enumerate(list(workers)):
            if w.alive and c.flag(f"dies{i}"):
                w.alive = False
                # a worker may die with any status, including 0 (e.g. it returned cleanly); one choice per run keeps the tree small
                if "exit_status" not in manager:
                    manager["exit_status"] = c.choose([1, 0], "exit_status_of_deaths")
                w.exitcode = manager["exit_status"]
                rec("env", "death", w.slot, w.pid)
        opt = SIGNAL_OPTS[first] if (tr.tick == 1 and first is not None) else c.choose(SIGNAL_OPTS, "signal")
        for s in opt.split("+"):
            if s != "none":
                deliver(s)

    pm.Process = FakeProcess
    pm.Queue = FakeQueue
    pm.Event = FakeEvent
    pm.sleep = fake_sleep
    pm.os = FakeOS()
    pm.signal = FakeSignal()
    pm.current_process = lambda: types.SimpleNamespace(name="MainProcess")
    # the real argument dataclass (its own validation / normalisation hooks run on the symbolic budget, too)
    from taskiq.cli.worker.args import WorkerArgs

    args = WorkerArgs(broker="b:broker", modules=[], workers=n_workers, max_fails=max_fails, reload=False, no_gitignore=False, shutdown_timeout=5)
    c.check(args.workers == n_workers, "worker_count_taken_as_configured", got=args.workers)
    c.check(args.max_fails == max_fails, "failure_budget_taken_as_configured", got=args.max_fails)
    mgr = pm.ProcessManager(args=args, worker_function=lambda args: None, observer=None)
    manager["pm"] = mgr
    tr.manager = mgr  # type: ignore[attr-defined]
    try:
        tr.returned = mgr.start()
        rec("returned", tr.returned)
    except StopRun:
        tr.returned = "<running>"
    return tr


def slot_procs(tr: Trace, slot: int) -> List[Any]:
    return [p for p in tr.procs if p.slot == slot and p.started]
