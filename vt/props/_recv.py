"""Receiver laboratory: runs the *real* taskiq.receiver.Receiver on a deterministic virtual-time
asyncio loop, with a scripted broker, recording middlewares / result backend / ack callbacks, and
"gates" (futures) at every environment suspension point.  The order in which gates open, timers
fire and external events happen is chosen through `Ctx.choose`, i.e. it is part of the explored
decision vector; configuration integers (max_async_tasks, max_prefetch, ...) may be SymInt.
"""
from __future__ import annotations

import asyncio
import concurrent.futures
import heapq
import logging
import threading
from typing import Any, AsyncGenerator, Callable, Dict, List, Optional, Tuple

from vt import sym

logging.disable(logging.CRITICAL)


class BaseOnly(BaseException):
    """A task outcome that is not an Exception subclass."""


class VLoop(asyncio.SelectorEventLoop):
    """Selector loop with virtual time, stepped manually (one `_run_once` at a time)."""

    def __init__(self) -> None:
        super().__init__()
        self._vtime = 0.0
        real_select = self._selector.select

        def select(timeout: Optional[float] = None) -> Any:
            if timeout is not None and timeout > 0:
                self._vtime += timeout
            return real_select(0)

        self._selector.select = select  # type: ignore[method-assign]
        self.steps = 0

    def time(self) -> float:
        return self._vtime

    def begin(self) -> None:
        self._check_closed()
        self._thread_id = threading.get_ident()
        asyncio.events._set_running_loop(self)

    def end(self) -> None:
        asyncio.events._set_running_loop(None)
        self._thread_id = None

    def settle(self, limit: int = 100000) -> None:
        n = 0
        while self._ready:
            self._run_once()
            self.steps += 1
            n += 1
            if n > limit:
                raise sym.HarnessError("event loop does not settle (livelock without timers)")

    def next_timer(self) -> Optional[float]:
        while self._scheduled and self._scheduled[0]._cancelled:
            h = heapq.heappop(self._scheduled)
            h._scheduled = False
            self._timer_cancelled_count = max(0, self._timer_cancelled_count - 1)
        live = [h for h in self._scheduled if not h._cancelled]
        return min(h._when for h in live) if live else None

    def tick(self) -> None:
        """advance virtual time to the next timer and run what becomes ready"""
        assert not self._ready
        self._run_once()
        self.steps += 1
        self.settle()

    def shutdown(self) -> None:
        try:
            for t in asyncio.all_tasks(self):
                t.cancel()
            for _ in range(50):
                if not self._ready:
                    break
                self._run_once()
        except BaseException:  # noqa: BLE001
            pass
        self.end()
        try:
            self.close()
        except Exception:  # noqa: BLE001
            pass


class InlineExecutor(concurrent.futures.Executor):
    """run_in_executor target runs synchronously at submit time (deterministic)."""

    def submit(self, fn: Callable[..., Any], /, *args: Any, **kwargs: Any) -> "concurrent.futures.Future[Any]":
        f: "concurrent.futures.Future[Any]" = concurrent.futures.Future()
        try:
            f.set_result(fn(*args, **kwargs))
        except BaseException as exc:  # noqa: BLE001
            f.set_exception(exc)
        return f


class Lab:
    """One experiment = one fresh loop + broker + receiver."""

    def __init__(self, c: sym.Ctx) -> None:
        self.c = c
        self.loop = VLoop()
        self.loop.begin()
        self.gates: Dict[str, "asyncio.Future[Any]"] = {}
        self.ev: List[Tuple[Any, ...]] = []
        self.ev_t: List[float] = []
        self.env: Dict[str, Callable[[], None]] = {}  # external one-shot events offered to the scheduler
        self.deadlock = False
        self.max_ticks = 6
        self.ticks = 0
        self.on_step: Optional[Callable[[], None]] = None

    # ---- recording
    def rec(self, *e: Any) -> None:
        self.ev.append(e)
        loop = getattr(self, "loop", None)
        self.ev_t.append(loop.time() if loop is not None else 0.0)  # virtual instant of every event
        self.c.event(*e)

    def count(self, *prefix: Any) -> int:
        n = len(prefix)
        return sum(1 for e in self.ev if e[:n] == prefix)

    def index(self, *prefix: Any) -> int:
        n = len(prefix)
        for i, e in enumerate(self.ev):
            if e[:n] == prefix:
                return i
        return -1

    # ---- gates
    async def gate(self, name: str) -> Any:
        fut = self.loop.create_future()
        assert name not in self.gates, f"gate {name} reused"
        self.gates[name] = fut
        try:
            return await fut
        finally:
            self.gates.pop(name, None)

    # ---- the scheduler
    def drive(self, main: "asyncio.Task[Any]", tick_allowed: Callable[[], bool] = lambda: True, max_steps: int = 400) -> None:
        loop = self.loop
        for _ in range(max_steps):
            loop.settle()
            if self.on_step is not None:
                self.on_step()
            if main.done():
                return
            opts: List[str] = sorted(g for g, f in self.gates.items() if not f.done() and not g.startswith("hang:"))
            opts += sorted(self.env)
            if loop.next_timer() is not None and self.ticks < self.max_ticks and tick_allowed():
                opts.append("~tick")
            if not opts:
                self.deadlock = True
                return
            pick = self.c.choose(opts, "sched")
            if pick == "~tick":
                self.ticks += 1
                self.rec("tick", round(loop.next_timer() or 0.0, 3))
                loop.tick()
            elif pick in self.env:
                fn = self.env.pop(pick)
                self.rec("env", pick)
                fn()
            else:
                fut = self.gates.pop(pick)
                if not fut.done():
                    fut.set_result(None)
        raise sym.HarnessError("scheduler step budget exhausted")

    def close(self) -> None:
        n = len(self.ev)
        m = len(self.c.events)
        self.loop.shutdown()
        self.late = self.ev[n:]  # produced only by the forced cancellation at tear-down
        del self.ev[n:]
        del self.ev_t[n:]
        del self.c.events[m:]


# ------------------------------------------------------------------------- scripted parts


def make_broker(lab: Lab, backend_fail: Callable[[str], bool] = lambda tid: False, backend_gate: bool = False) -> Any:
    from taskiq import AsyncBroker
    from taskiq.abc.result_backend import AsyncResultBackend

    store: Dict[str, Any] = {}

    class Backend(AsyncResultBackend):  # type: ignore[type-arg]
        async def set_result(self, task_id: str, result: Any) -> None:
            lab.save_seq = getattr(lab, "save_seq", 0) + 1  # type: ignore[attr-defined]
            seq = lab.save_seq  # type: ignore[attr-defined]
            lab.rec("set_result", "begin", task_id, result, seq)
            if backend_gate:
                await lab.gate(f"save:{task_id}:{seq}")
            if backend_fail(task_id):
                lab.rec("set_result", "raise", task_id, seq)
                raise RuntimeError("backend down")
            lab.rec("set_result", "end", task_id, seq)
            store[task_id] = result

        async def is_result_ready(self, task_id: str) -> bool:
            return task_id in store  # a truthful backend

        async def get_result(self, task_id: str, with_logs: bool = False) -> Any:
            return store[task_id]

    class Broker(AsyncBroker):
        def __init__(self) -> None:
            super().__init__()
            self.script: List[Any] = []
            self.kicked: List[Any] = []
            self.stream_end = False

        async def kick(self, message: Any) -> None:
            lab.rec("kick", message.task_id, message)
            self.kicked.append(message)

        async def listen(self) -> AsyncGenerator[Any, None]:
            i = 0
            while True:
                if i < len(self.script):
                    if not getattr(lab, "no_arrival_gates", False):
                        await lab.gate(f"arrive:{i}")
                    lab.rec("taken", i)
                    yield self.script[i]
                    i += 1
                else:
                    await lab.gate("stream")  # opened only to end the stream
                    return

    b = Broker()
    b.result_backend = Backend()
    return b


def encode(broker: Any, task_name: str, task_id: str, args: List[Any], labels: Optional[Dict[str, Any]] = None,
           kwargs: Optional[Dict[str, Any]] = None, labels_types: Optional[Dict[str, int]] = None) -> bytes:
    from taskiq.message import TaskiqMessage

    m = TaskiqMessage(task_id=task_id, task_name=task_name, labels=labels or {}, labels_types=labels_types, args=args, kwargs=kwargs or {})
    return broker.formatter.dumps(m).message


def ackable(lab: Lab, i: Any, data: bytes, async_ack: Any, gate_ack: bool = False) -> Any:
    """async_ack: False (plain function), True (returns a coroutine), "future" (returns an already scheduled Task/Future,
    which is a legal Awaitable[None] as well); the ack *effect* is the event ("ack", i)."""
    from taskiq.acks import AckableMessage

    if async_ack == "future":
        def ack() -> Any:
            lab.rec("ack_call", i)

            async def eff() -> None:
                await lab.gate(f"ackf:{i}")
                lab.rec("ack", i)

            return asyncio.ensure_future(eff())
    elif async_ack:
        def ack() -> Any:
            lab.rec("ack_call", i)

            async def eff() -> None:
                lab.rec("ack", i)
                if gate_ack:
                    await lab.gate(f"ack:{i}")

            return eff()
    else:
        def ack() -> Any:
            lab.rec("ack_call", i)
            lab.rec("ack", i)

    return AckableMessage(data=data, ack=ack)


HOOKS = ("pre_execute", "on_error", "post_execute", "post_save")


def make_middleware(lab: Lab, idx: int, overridden: Dict[str, str], replace_message: bool = False,
                    raising: Optional[str] = None, base: Any = None) -> Any:
    """overridden: hook name -> 'sync' | 'async' (suspends on a gate).
    base: another recording middleware (instance) whose class becomes the parent class, so that its hooks are inherited
    through an intermediate base; every hook records the index of the *instance* it runs on."""
    from taskiq.abc.middleware import TaskiqMiddleware

    ns: Dict[str, Any] = {}

    def mk(hook: str, kind: str) -> Any:
        def body(self: Any, message: Any, *rest: Any) -> Any:
            me = self._vt_idx
            lab.rec("hook", me, hook, message.task_id, message, *rest)
            if raising == hook:
                raise RuntimeError(f"hook {hook} of middleware {me} failed")
            if hook in ("pre_execute", "pre_send"):
                if replace_message:
                    return message.model_copy(update={"labels": {**message.labels, f"seen_by_{me}": hook}})
                return message
            lab.rec("hook_end", me, hook, message.task_id)
            return None

        if kind == "sync":
            return body

        if kind == "future":
            # a plain function that returns an already scheduled Task: a legal awaitable result of a hook
            def fbody(self: Any, message: Any, *rest: Any) -> Any:
                async def later() -> Any:
                    lab.rec("hook_begin", self._vt_idx, hook, message.task_id)
                    await lab.gate(f"hookf:{self._vt_idx}:{hook}:{message.task_id}")
                    return body(self, message, *rest)

                return asyncio.ensure_future(later())

            return fbody

        async def abody(self: Any, message: Any, *rest: Any) -> Any:
            lab.rec("hook_begin", self._vt_idx, hook, message.task_id)
            await lab.gate(f"hook:{self._vt_idx}:{hook}:{message.task_id}")
            return body(self, message, *rest)

        return abody

    for hook, kind in overridden.items():
        ns[hook] = mk(hook, kind)
    cls = type(f"M{idx}", (TaskiqMiddleware if base is None else type(base),), ns)
    inst = cls()
    inst._vt_idx = idx
    return inst
