"""C14 -- a one-shot schedule is never sent early and at most one second late.

Real code executed: taskiq.cli.scheduler.run.get_task_delay / to_tz_aware (time branch).
Symbolic: now, T (unbounded Int microseconds), utcoffset of T, host zone offset.
"""
from __future__ import annotations

import types
from typing import Any, Dict, List

import z3

from vt import dtmodel, sym
from vt.dtmodel import DT, MIN, TZ, US
from vt.props import _sched

ID = "C14"
CROSSCHECK = 40  # thorough tier: obligations per case re-decided by the cvc5 binary
LEVEL = "other"
TECHNIQUE = "path-wise symbolic execution of get_task_delay with z3 over unbounded integer microseconds + QF_BVFP lemma"
EXPLANATION = (
    "Bounded SMT verification of the real byte code of get_task_delay/to_tz_aware: datetime/timedelta are replaced by an "
    "integer-microsecond model (validated differentially against the real datetime on every run), now and T are "
    "unconstrained z3 Ints, every feasible path is explored and the three cases of the property are discharged by z3 on each path; "
    "the one float operation (int(total_seconds())) is cut by a QF_BVFP lemma proved by an external solver."
)
ASSUMPTIONS = [
    "datetime/timedelta integer model (vt.dtmodel) agrees with CPython's datetime (validated on random vectors each run)",
    "utcoffset of an aware T is a fixed offset with |off| < 24 h",
    "float rounding in total_seconds() is covered by the lemma only for |T-now| <= 2^27 us; the harness proves the code only converts such values",
]
TRUSTED = ["z3 5.1 (LIA)", "cvc5 / z3 (QF_BVFP lemma)", "vt.dtmodel", "vt.sym explorer"]
BOUNDS = {"now": "unbounded Int us", "T": "unbounded Int us", "utcoffset": "(-24h, 24h) us", "host_offset": "whole minutes in [-14h, 14h]", "loops": "none in the code"}
REQUIRED_COVERS = ["zero", "none", "delay", "naive", "aware", "earlier_evaluation", "model_boundary"]

DAYUS = 86400 * US


def cases(tier: str, hname: str = "harness") -> List[Any]:
    if hname == "boundary":
        return ["naive", "utc", "fixed", "pytz", "zoneinfo"]
    return ["naive", "aware_utc", "aware_offset"]


def _spec(now: Any, T: Any, r: Any) -> Any:
    """The property as a formula over ints (works for SymInt and int)."""
    boundary = now - (now % MIN) + MIN
    horizon = boundary + US
    if r is None:
        return T > horizon
    if isinstance(r, bool) or not isinstance(r, (int, sym.SymInt)):
        return False
    due_now = (T <= now) & (r == 0)
    in_window = (T > now) & (T <= horizon) & (r >= 0) & (T <= now + r * US) & (now + r * US < T + US)
    return due_now | in_window


def harness(c: sym.Ctx, case: Any) -> None:
    now = c.int("now")
    T = c.int("T")
    off = 0
    local = c.int("host_off_min", -14 * 60, 14 * 60) * MIN
    if case == "aware_offset":
        off = c.int("off", -DAYUS + 1, DAYUS - 1)
    c.cover("naive" if case == "naive" else "aware")
    # an earlier evaluation in the same process (another schedule, an arbitrary earlier instant) must not influence this one
    hist = c.flag("earlier_evaluation_in_the_same_process")
    if hist:
        c.cover("earlier_evaluation")
        now0 = c.int("earlier_now")
        T0 = c.int("earlier_T")
        c.assume(now0 <= now)
    if c.mode == "sym":
        run = _sched.sym_run_module()
        mk = (lambda u: DT(u, 0, False)) if case == "naive" else (lambda u: DT(u, off, True, TZ("fixed", off)))
        if hist:
            dtmodel.CLOCK = dtmodel.Clock(now0, local_off=local)
            try:
                run.get_task_delay(types.SimpleNamespace(cron=None, cron_offset=None, time=mk(T0), task_name="t0", schedule_id="s0"))
            except Exception:  # noqa: BLE001
                pass
        dtmodel.CLOCK = dtmodel.Clock(now, local_off=local)
        t = mk(T)
        task = types.SimpleNamespace(cron=None, cron_offset=None, time=t, task_name="t", schedule_id="s")
        try:
            r = run.get_task_delay(task)
        except Exception as exc:  # noqa: BLE001
            c.check(False, "unexpected_exception", exc=repr(exc))
            return
    else:
        from taskiq.scheduler.scheduled_task import ScheduledTask

        if hist:
            t0 = _sched.real_from_us(T0, None if case == "naive" else off)
            with _sched.real_run_module(now0, local, fresh=True) as run0:
                try:
                    run0.get_task_delay(ScheduledTask(task_name="t0", labels={}, args=[], kwargs={}, time=t0))
                except Exception:  # noqa: BLE001
                    pass
        t = _sched.real_from_us(T, None if case == "naive" else off)
        task = ScheduledTask(task_name="t", labels={}, args=[], kwargs={}, time=t)
        with _sched.real_run_module(now, local, fresh=not hist) as run:
            try:
                r = run.get_task_delay(task)
            except Exception as exc:  # noqa: BLE001
                c.check(False, "unexpected_exception", exc=repr(exc))
                return
    c.event("result", r)
    c.cover("none" if r is None else ("zero" if isinstance(r, int) and r == 0 else "delay"))
    c.check(_spec(now, T, r), "one_shot_delay_spec", result=r)


NOW_SAMPLES = [1_699_162_200 * US, 1_699_162_200 * US + 59 * US + 400_000, 1_700_000_000 * US + 123_456, 1_711_846_799 * US + 999_999]
# 1_699_162_200 = 2023-11-05 05:30:00 UTC = 01:30 EDT, half an hour before New York falls back (the repeated hour)
DELTAS = [-US, 0, 500_000, 10 * US, 30 * US + 250_000, 61 * US + 500_000, 2 * 3600 * US, -3 * 3600 * US]


def boundary(c: sym.Ctx, case: Any) -> None:
    """Model boundary: sampled concrete instants and target times of every tzinfo flavour go through the real ScheduledTask
    model (its validators / normalisation) into the real get_task_delay; the result must satisfy the same specification."""
    import datetime as real_dt
    import zoneinfo

    import pytz
    from taskiq.scheduler.scheduled_task import ScheduledTask

    c.cover("model_boundary")
    now = NOW_SAMPLES[c.choose(len(NOW_SAMPLES), "now")]
    d = DELTAS[c.choose(len(DELTAS), "delta")]
    at_horizon = c.flag("exactly_on_the_horizon")
    T = (now - now % MIN + MIN + US) if at_horizon else now + d
    utc = _sched.EPOCH_UTC + real_dt.timedelta(microseconds=T)
    if case == "naive":
        t = utc.replace(tzinfo=None)
    elif case == "utc":
        t = utc
    elif case == "fixed":
        t = utc.astimezone(real_dt.timezone(real_dt.timedelta(hours=5, minutes=30)))
    elif case == "pytz":
        tz = pytz.timezone(c.choose(["America/New_York", "Europe/Berlin", "Australia/Lord_Howe"], "zone"))
        t = tz.normalize(utc.astimezone(tz))
    else:
        t = utc.astimezone(zoneinfo.ZoneInfo(c.choose(["America/New_York", "Asia/Kolkata"], "zone")))
    task = ScheduledTask(task_name="t", labels={}, args=[], kwargs={}, time=t)
    with _sched.real_run_module(now, 0, fresh=True) as run:
        try:
            r = run.get_task_delay(task)
        except Exception as exc:  # noqa: BLE001
            c.check(False, "unexpected_exception", exc=repr(exc))
            return
    c.event("now", now, "T", T, "tz", case, "result", r)
    c.check(bool(_spec(now, T, r)), "one_shot_delay_spec", result=r, now=now, T=T, tz=case, time=str(t))


HARNESSES = {"harness": harness, "boundary": boundary}


def extra(tier: str, seed: int) -> List[Dict[str, Any]]:
    solvers = ("cvc5",) if tier == "quick" else ("cvc5", "z3-4.8", "z3-5.1")
    obl = dtmodel.fp_lemma(solvers)
    n, bad = dtmodel.validate(4000 if tier == "quick" else 40000, seed)
    obl.append({"name": f"datetime model differential validation ({n} comparisons)", "verdict": "unsat" if not bad else "mismatch",
                "expected": "unsat", "solver": "differential test vs CPython datetime", "time_s": 0, "mismatches": bad})
    return obl
