"""C10 -- middleware hooks fire in the documented order, once per message.

Real code executed: AsyncKicker.kiq/_prepare_message (send side); Receiver.callback/run_task (execute side);
utils.maybe_awaitable.  Decision variables: stack size, per (middleware, hook) not-overridden / sync / async,
message-replacing hooks, task outcome, backend failure, kick failure; async hooks suspend on gates the scheduler opens.
"""
from __future__ import annotations

import asyncio
import itertools
from typing import Any, Dict, List

from vt import sym
from vt.props import _cb
from vt.props._recv import Lab, make_broker, make_middleware

ID = "C10"
LEVEL = "other"
TECHNIQUE = "exhaustive path exploration (symbolic choice variables) of the real kiq() and Receiver.callback with recording middleware stacks; obligations on the exact hook sequence"
EXPLANATION = (
    "Path-wise symbolic execution of the real AsyncKicker.kiq and Receiver.callback/run_task: for stacks of up to 2 (quick) / 3 "
    "(thorough) middlewares every combination of not-overridden / sync / async hooks, replacing or not, every outcome, backend "
    "failure and kick failure is a decision vector; on each path the recorded hook sequence must equal the documented one exactly "
    "(order, multiplicity, conditions, message chaining)."
)
ASSUMPTIONS = ["hooks do not raise", "inheritance: one level (middleware 1 derives from middleware 0, parent registered first)", "inline executor", "concurrent messages are checked per message in C02/C07 harnesses; here one message per run"]
TRUSTED = ["CPython asyncio (real, virtual clock)", "vt.sym explorer", "recording middlewares"]
BOUNDS = {"middlewares": "0..2 quick (3 kinds per hook), 3 thorough (2 kinds per hook)", "messages": 1}
REQUIRED_COVERS = ["inherited_hooks", "outcome_cancelled", "outcome_raise_base", "outcome_timeout", "late_middleware", "via_listen", "future_hook", "exec", "send", "kick_failed", "async_hook", "sync_hook", "no_hook", "replace", "post_save_skipped", "on_error_ran"]

EXEC_HOOKS = ("pre_execute", "on_error", "post_execute", "post_save")
SEND_HOOKS = ("pre_send", "post_send")
KINDS3 = (None, "sync", "async")
KINDS2 = (None, "async")
KINDSF = ("sync", "future")  # hooks that return an awaitable which is not a coroutine


def cases(tier: str, hname: str = "harness") -> List[Any]:
    if hname == "via_listen":
        return [{"M": 3, "K": 5 if tier == "quick" else 6, "prefix": [p], "cfg": cfg} for p in range(3) for cfg in ("quota", "plain")]
    out: List[Any] = []
    for outcome in ("return", "raise_exc", "no_result"):
        for bf in (False, True):
            out.append({"side": "exec", "n": 0, "outcome0": outcome, "backend_fail0": bf, "kinds": 3})
            for v0 in itertools.product(range(3), repeat=4):
                out.append({"side": "exec", "n": 1, "outcome0": outcome, "backend_fail0": bf, "v0": list(v0), "kinds": 3})
                if outcome != "no_result" or tier == "thorough":
                    out.append({"side": "exec", "n": 2, "outcome0": outcome, "backend_fail0": bf, "v0": list(v0), "kinds": 3})
            if tier == "thorough":
                for v0 in itertools.product(range(2), repeat=4):
                    out.append({"side": "exec", "n": 3, "outcome0": outcome, "backend_fail0": bf, "v0": list(v0), "kinds": 2})
    # the other ways a task function can fail: an exception outside the Exception hierarchy, a cancellation of something the
    # function awaits, a timeout label that fires
    for outcome in ("raise_base", "cancelled", "timeout"):
        for v0 in itertools.product(range(3), repeat=4):
            out.append({"side": "exec", "n": 1, "outcome0": outcome, "backend_fail0": False, "v0": list(v0), "kinds": 3})
    for n in (0, 1, 2) + ((3,) if tier == "thorough" else ()):
        for kf in (False, True):
            out.append({"side": "send", "n": n, "kick_fail": kf, "kinds": 3 if n < 3 else 2})
    for outcome in ("return", "raise_exc"):
        out.append({"side": "exec", "n": 2, "outcome0": outcome, "backend_fail0": False, "kinds": "f"})
    out.append({"side": "send", "n": 2, "kick_fail": False, "kinds": "f"})
    # hooks inherited through an intermediate base class: middleware 1's class derives from middleware 0's class, both are
    # registered (parent first); the child keeps every hook of the parent and adds / redefines its own
    for v0 in itertools.product(range(3), repeat=4):
        out.append({"side": "exec", "n": 2, "outcome0": "raise_exc", "backend_fail0": False, "v0": list(v0), "kinds": 3, "inherit": True})
    for kf in (False, True):
        out.append({"side": "send", "n": 2, "kick_fail": kf, "kinds": 3, "inherit": True})
    return out


def _vectors(c: sym.Ctx, case: Dict[str, Any], hooks: Any) -> List[Dict[str, str]]:
    kinds = KINDS3 if case["kinds"] == 3 else (KINDSF if case["kinds"] == "f" else KINDS2)
    mws: List[Dict[str, str]] = []
    for k in range(case["n"]):
        vec = case["v0"] if (k == 0 and "v0" in case) else [c.choose(len(kinds), f"mw{k}.{h}") for h in hooks]
        mws.append({h: kinds[v] for h, v in zip(hooks, vec) if kinds[v] is not None})
    return mws


def _effective(case: Dict[str, Any], own: List[Dict[str, str]]) -> List[Dict[str, str]]:
    """the hooks each registered middleware really has: its own plus, with case['inherit'], those of its parent class"""
    if not case.get("inherit"):
        return own
    eff: List[Dict[str, str]] = []
    for m in own:
        eff.append({**(eff[-1] if eff else {}), **m})
    return eff


def harness(c: sym.Ctx, case: Dict[str, Any]) -> None:
    if case["side"] == "exec":
        exec_side(c, case)
    else:
        send_side(c, case)


def exec_side(c: sym.Ctx, case: Dict[str, Any]) -> None:
    c.cover("exec")
    own = _vectors(c, case, EXEC_HOOKS)
    mws = _effective(case, own)
    replace = bool(mws) and c.flag("replace")
    if case.get("inherit"):
        c.cover("inherited_hooks")
    spec: Dict[str, Any] = {
        "ack": "when_saved", "async_ack": False, "target": "async", "outcome0": case["outcome0"], "timeout_label0": False,
        "backend_fail0": case["backend_fail0"], "mws": own, "inherit": bool(case.get("inherit")), "replace": replace,
        "task_gate": False, "backend_gate": False,
    }
    if mws and not case["backend_fail0"] and c.flag("middleware_registered_after_a_first_message"):
        c.cover("late_middleware")
        spec["late_from"] = c.choose(list(range(len(mws))), "late_from")
    lab = _cb.run(c, spec, n_msgs=1)
    o, bf = case["outcome0"], case["backend_fail0"]
    want: List[Any] = [(k, "pre_execute") for k, m in enumerate(mws) if "pre_execute" in m]
    if o != "return":
        want += [(k, "on_error") for k, m in enumerate(mws) if "on_error" in m]
        c.cover("on_error_ran")
        c.cover("outcome_" + o)
    want += [(k, "post_execute") for k, m in enumerate(mws) if "post_execute" in m]
    if o != "no_result" and not bf:
        want += [(k, "post_save") for k, m in enumerate(mws) if "post_save" in m]
    else:
        c.cover("post_save_skipped")
    hooks = [e for e in lab.ev if e[0] == "hook"]
    got = [(e[1], e[2]) for e in hooks]
    for m in mws:
        for kind in m.values():
            c.cover("async_hook" if kind == "async" else ("future_hook" if kind == "future" else "sync_hook"))
    if not want:
        c.cover("no_hook")
    if replace:
        c.cover("replace")
    c.check(not lab.deadlock and lab.main_done, "no_deadlock")
    c.check(got == want, "exec_hook_sequence", got=got, want=want, outcome=o, backend_fail=bf)
    c.check(all(e[3] == "id0" for e in hooks), "hook_message_id")
    # positions relative to the task and the save
    ts, te = lab.index("task_start", 0), lab.index("task_end", 0)
    sv = max(lab.index("set_result", "end", "id0"), lab.index("set_result", "raise", "id0"))
    for pos, e in enumerate(lab.ev):
        if e[0] != "hook":
            continue
        if e[2] == "pre_execute":
            c.check(pos < ts, "pre_execute_before_task")
        elif e[2] in ("on_error", "post_execute"):
            c.check(te >= 0 and pos > te, "hook_after_task_end", hook=e[2])
        elif e[2] == "post_save":
            c.check(lab.index("set_result", "end", "id0") >= 0 and pos > sv, "post_save_after_store")
    # no overlap between async hooks: a hook begins only after its predecessor's body ran
    open_hook = None
    for e in lab.ev:
        if e[0] == "hook_begin":
            c.check(open_hook is None, "hooks_do_not_overlap", began=e[1:3], still_open=open_hook)
            open_hook = e[1:3]
        elif e[0] == "hook" and open_hook == e[1:3]:
            open_hook = None
    if replace:
        seen: List[str] = []
        for e in hooks:
            msg = e[4]
            have = sorted(k for k in msg.labels if k.startswith("seen_by_"))
            if e[2] == "pre_execute":
                c.check(have == sorted(seen), "pre_execute_sees_predecessor_message", have=have, want=sorted(seen))
                seen.append(f"seen_by_{e[1]}")
            else:
                c.check(have == sorted(seen), "later_hooks_see_final_message", hook=e[2], have=have, want=sorted(seen))


def send_side(c: sym.Ctx, case: Dict[str, Any]) -> None:
    from taskiq.exceptions import SendTaskError
    from taskiq.kicker import AsyncKicker

    c.cover("send")
    own = _vectors(c, case, SEND_HOOKS)
    mws = _effective(case, own)
    replace = bool(mws) and c.flag("replace")
    if case.get("inherit"):
        c.cover("inherited_hooks")
    lab = Lab(c)
    broker = make_broker(lab)
    kick_fail = case["kick_fail"]
    orig_kick = broker.kick
    boom = RuntimeError("broker down")

    async def kick(message: Any) -> None:
        await orig_kick(message)
        if kick_fail:
            raise boom

    broker.kick = kick  # type: ignore[method-assign]
    made: List[Any] = []
    for k, hooks in enumerate(own):
        made.append(make_middleware(lab, k, hooks, replace_message=replace, base=made[-1] if (case.get("inherit") and made) else None))
        broker.add_middlewares(made[-1])
    out: Dict[str, Any] = {}

    async def main() -> None:
        try:
            out["task"] = await AsyncKicker("t", broker, {"user": "L"}).with_task_id("id0").kiq(1, x=2)
        except BaseException as exc:  # noqa: BLE001
            out["exc"] = exc

    mt = lab.loop.create_task(main())
    try:
        lab.drive(mt)
    finally:
        lab.close()
    want: List[Any] = [(k, "pre_send") for k, m in enumerate(mws) if "pre_send" in m] + ["kick"]
    if not kick_fail:
        want += [(k, "post_send") for k, m in enumerate(mws) if "post_send" in m]
    else:
        c.cover("kick_failed")
    got = [(e[1], e[2]) if e[0] == "hook" else "kick" for e in lab.ev if e[0] in ("hook", "kick")]
    for m in mws:
        for kind in m.values():
            c.cover("async_hook" if kind == "async" else "sync_hook")
    if replace:
        c.cover("replace")
    c.check(got == want, "send_hook_sequence", got=got, want=want, kick_fail=kick_fail)
    if kick_fail:
        exc = out.get("exc")
        c.check(isinstance(exc, SendTaskError) and exc.__cause__ is boom, "send_failure_surfaces_as_SendTaskError", exc=exc)
    else:
        c.check("exc" not in out and getattr(out.get("task"), "task_id", None) == "id0", "send_returns_task", out=out)
    open_hook = None
    for e in lab.ev:
        if e[0] == "hook_begin":
            c.check(open_hook is None, "hooks_do_not_overlap", began=e[1:3], still_open=open_hook)
            open_hook = e[1:3]
        elif e[0] == "hook" and open_hook == e[1:3]:
            open_hook = None
    seen: List[str] = []
    for e in lab.ev:
        if e[0] == "hook":
            have = sorted(k for k in e[4].labels if k.startswith("seen_by_"))
            c.check(have == sorted(seen), "send_hook_sees_predecessor_message", hook=e[2], have=have, want=sorted(seen))
            if e[2] == "pre_send" and replace:
                seen.append(f"seen_by_{e[1]}")
        elif e[0] == "kick":
            have = sorted(k for k in e[2].labels if k.startswith("seen_by_"))
            c.check(have == sorted(seen) and e[2].task_id == "id0" and e[2].task_name == "t", "kick_gets_final_message", have=have)


def budget(tier: str) -> Dict[str, Any]:
    return {"max_paths": 400000, "budget_s": 900 if tier == "quick" else 3000}


def via_listen(c: sym.Ctx, case: Dict[str, Any]) -> None:
    """each overridden execute-side hook exactly once per delivered message when the messages come through Receiver.listen"""
    from vt.props import _listen

    c.cover("via_listen")
    M = case["M"]
    outcomes = ["return", c.choose(["return", "raise"], "outcome1"), "return"]
    spec = {"M": M, "kinds": ["valid"] * M, "outcomes": outcomes, "A": "sym", "P": "sym", "N": "sym" if case["cfg"] == "quota" else "none",
            "wtt": None, "K": case["K"], "prefix": case["prefix"], "record_mw": True}
    r = _listen.run(c, spec)
    ev = r.lab.ev
    c.check(r.returned and not r.stuck, "run_completes", info=r.info)
    for i in sorted({e[1] for e in ev if e[0] == "taken"}):
        got = [e[2] for e in ev if e[0] == "hook" and e[3] == f"id{i}"]
        want = ["pre_execute"] + (["on_error"] if outcomes[i] == "raise" else []) + ["post_execute", "post_save"]
        c.check(got == want, "exec_hook_sequence", msg=i, got=got, want=want, via="listen", A=r.A, P=r.P, N=r.N)


HARNESSES = {"harness": harness, "via_listen": via_listen}
