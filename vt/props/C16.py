"""C16 -- scheduled sends carry the schedule's payload and honour source callbacks.

Real code executed: TaskiqScheduler.on_ready, AsyncKicker (with_labels/kiq/_prepare_message), LabelScheduleSource.get_schedules/post_send.
Decision variables: sync/async pre_send and post_send, cancellation, payload variants, sequences of two firings; for the label source
the list of entries per task (cron / time A / time B / invalid), presence of a foreign-broker task, and the order in which one-shot
entries fire.
"""
from __future__ import annotations

import datetime as dt
import itertools
from typing import Any, Dict, List

from vt import sym
from vt.props._recv import Lab, make_broker

ID = "C16"
LEVEL = "other"
TECHNIQUE = "exhaustive path exploration (symbolic choice variables) of the real on_ready / LabelScheduleSource over callback kinds, payloads, entry lists and firing orders"
EXPLANATION = (
    "Path-wise symbolic execution of the real TaskiqScheduler.on_ready and LabelScheduleSource: sync/async and cancelling pre_send, "
    "payload variants and sequences of two firings are decision variables for the send side; for the label source every list of up to 3 "
    "entries (cron / two possibly equal times / invalid) on two tasks plus a foreign-broker task and every firing order of the one-shot "
    "entries is explored; the sent message and the remaining entries are compared with the specification on each path."
)
ASSUMPTIONS = ["payload values are opaque to the code (moved, never inspected)", "real JSON wire for the sent message"]
TRUSTED = ["vt.sym explorer", "pydantic ScheduledTask (executed)"]
BOUNDS = {"firings per run": 2, "tasks": "2 own + 1 foreign", "entries per task": "<= 3 quick / 4 thorough (task 1), <= 2 (task 2)", "distinct times": "2 naive + 1 timezone-aware"}
REQUIRED_COVERS = ["cancelled", "sent", "async_pre", "sync_pre", "second_firing", "listing", "fired_time", "fired_cron", "duplicate_times", "foreign", "aware_time", "global_registry_broker"]

T_A = dt.datetime(2030, 1, 1, 12, 0, 0)
T_B = dt.datetime(2030, 1, 1, 12, 5, 0)
T_C = dt.datetime(2030, 1, 1, 12, 0, 0, tzinfo=dt.timezone(dt.timedelta(hours=2)))  # timezone-aware declaration
ENTRY = ("cron", "timeA", "timeB", "invalid", "timeC")


def cases(tier: str, hname: str) -> List[Any]:
    if hname == "on_ready":
        return [{"pre": p, "post": q} for p in ("sync", "async") for q in ("sync", "async", "default")]
    out = []
    for e1 in itertools.product(range(len(ENTRY)), repeat=3):
        out.append({"t1": list(e1), "max1": 3})
    for e1 in itertools.product((0, 1, 2), repeat=3):
        out.append({"t1": list(e1), "max1": 3, "global": True})
    if tier == "thorough":
        for e1 in itertools.product(range(4), repeat=4):  # four entries, without the timezone-aware kind
            out.append({"t1": list(e1), "max1": 4, "only4": True})
    return out


def on_ready(c: sym.Ctx, case: Dict[str, Any]) -> None:
    from taskiq.abc.schedule_source import ScheduleSource
    from taskiq.exceptions import ScheduledTaskCancelledError
    from taskiq.scheduler.scheduled_task import ScheduledTask
    from taskiq.scheduler.scheduler import TaskiqScheduler

    lab = Lab(c)
    try:
        broker = make_broker(lab)
        cancel = [c.flag("cancel1"), c.flag("cancel2")]
        c.cover("async_pre" if case["pre"] == "async" else "sync_pre")

        class Src(ScheduleSource):
            async def get_schedules(self) -> List[Any]:
                return []

        def pre_body(task: Any) -> None:
            lab.rec("pre_send", task.schedule_id)
            if cancel[int(task.schedule_id[-1]) - 1]:
                raise ScheduledTaskCancelledError()

        if case["pre"] == "sync":
            Src.pre_send = lambda self, task: pre_body(task)  # type: ignore[method-assign,assignment]
        else:
            async def apre(self: Any, task: Any) -> None:
                await lab.gate(f"pre:{task.schedule_id}")
                pre_body(task)

            Src.pre_send = apre  # type: ignore[method-assign,assignment]
        if case["post"] == "sync":
            Src.post_send = lambda self, task: lab.rec("post_send", task.schedule_id)  # type: ignore[method-assign,assignment]
        elif case["post"] == "async":
            async def apost(self: Any, task: Any) -> None:
                await lab.gate(f"post:{task.schedule_id}")
                lab.rec("post_send", task.schedule_id)

            Src.post_send = apost  # type: ignore[method-assign,assignment]
        src = Src()
        sched = TaskiqScheduler(broker, [src])
        variants = [
            {"labels": {"prio": 5, "who": "a"}, "args": [1, "x"], "kwargs": {"k": [1, 2]}},
            {"labels": {}, "args": [], "kwargs": {}},
            {"labels": {"who": "b", "opt": None, "zero": 0, "empty": ""}, "args": [{"d": 1}], "kwargs": {"z": None}},
        ]
        v1 = variants[c.choose(3, "payload1")]
        v2 = variants[c.choose(3, "payload2")]
        same_task = c.flag("same_task_name")
        s1 = ScheduledTask(task_name="t", schedule_id="sid1", cron="* * * * *", **{k: (dict(v) if isinstance(v, dict) else list(v)) for k, v in v1.items()})
        s2 = ScheduledTask(task_name="t" if same_task else "u", schedule_id="sid2", time=T_A, **{k: (dict(v) if isinstance(v, dict) else list(v)) for k, v in v2.items()})

        async def main() -> None:
            await sched.on_ready(src, s1)
            lab.rec("fired", 1)
            await sched.on_ready(src, s2)
            lab.rec("fired", 2)

        mt = lab.loop.create_task(main())
        lab.drive(mt)
        exc = mt.exception() if mt.done() else None
    finally:
        lab.close()
    c.check(exc is None and not lab.deadlock, "on_ready_completes", exc=repr(exc))
    bounds = [0, lab.index("fired", 1), lab.index("fired", 2)]
    for n, (s, v) in enumerate(((s1, v1), (s2, v2)), start=1):
        if bounds[n] < 0:
            continue
        seg = lab.ev[bounds[n - 1] : bounds[n]]
        kinds = [e[0] for e in seg if e[0] in ("pre_send", "kick", "post_send")]
        if n == 2:
            c.cover("second_firing")
        if cancel[n - 1]:
            c.cover("cancelled")
            c.check(kinds == ["pre_send"], "cancelled_schedule_sends_nothing", firing=n, kinds=kinds)
            continue
        c.cover("sent")
        want_kinds = ["pre_send", "kick"] + ([] if case["post"] == "default" else ["post_send"])
        c.check(kinds == want_kinds, "pre_send_then_one_kick_then_post_send", firing=n, kinds=kinds, want=want_kinds)
        kicks = [e for e in seg if e[0] == "kick"]
        if len(kicks) != 1:
            continue
        msg = broker.formatter.loads(kicks[0][2].message)
        msg.parse_labels()
        # labels outside the five primitive types travel as their text form (prepare_label): None arrives as "None"
        want_labels = {**{k: ("None" if x is None else x) for k, x in v["labels"].items()}, "schedule_id": s.schedule_id}
        c.check(msg.task_name == s.task_name and list(msg.args) == v["args"] and dict(msg.kwargs) == v["kwargs"], "message_carries_schedule_payload",
                firing=n, name=msg.task_name, args=msg.args, kwargs=msg.kwargs)
        c.check(dict(msg.labels) == want_labels and all(type(msg.labels[k]) is type(want_labels[k]) for k in want_labels),
                "message_labels_are_schedule_labels_plus_schedule_id", firing=n, got=dict(msg.labels), want=want_labels)


def _entry(kind: str, k: int) -> Dict[str, Any]:
    e: Dict[str, Any] = {"args": [k], "labels": {"n": k}}
    if kind == "cron":
        e["cron"] = "*/5 * * * *"
    elif kind == "timeA":
        e["time"] = T_A
    elif kind == "timeB":
        e["time"] = T_B
    elif kind == "timeC":
        e["time"] = T_C
    return e


def label_source(c: sym.Ctx, case: Dict[str, Any]) -> None:
    from taskiq import AsyncBroker
    from taskiq.brokers.shared_broker import AsyncSharedBroker
    from taskiq.schedule_sources import LabelScheduleSource

    c.cover("listing")
    lab = Lab(c)
    saved_global = dict(AsyncBroker.global_task_registry)
    try:
        broker = make_broker(lab)
        if case.get("global"):
            # a broker whose registration hook stores its own tasks in the class-level registry (as AsyncSharedBroker does)
            c.cover("global_registry_broker")
            broker._register_task = lambda name, task: AsyncBroker.global_task_registry.__setitem__(name, task)  # type: ignore[method-assign]
        kinds1 = [ENTRY[k] for k in case["t1"]][: (4 if case.get("only4") else c.choose(list(range(1, case.get("max1", 3) + 1)), "n1"))]
        kinds2 = [ENTRY[c.choose(4, f"t2.{k}")] for k in range(c.choose([0, 1, 2], "n2"))]
        if "timeC" in kinds1:
            c.cover("aware_time")
        foreign = c.flag("foreign_task")

        async def fn(*a: Any) -> None:
            return None

        t1 = broker.register_task(fn, task_name="t1", schedule=[_entry(k, i) for i, k in enumerate(kinds1)], other="x")
        t2 = broker.register_task(fn, task_name="t2", schedule=[_entry(k, 10 + i) for i, k in enumerate(kinds2)]) if kinds2 else None
        if foreign:
            c.cover("foreign")
            sb = AsyncSharedBroker()
            sb.task(task_name="t_foreign", schedule=[_entry("cron", 99), _entry("timeA", 98)])(fn)
        src = LabelScheduleSource(broker)
        out: Dict[str, Any] = {}

        def spec_list() -> List[Any]:
            res = []
            for name, task in (("t1", t1), ("t2", t2)):
                if task is None:
                    continue
                for e in task.labels.get("schedule", []):
                    if "cron" in e or "time" in e:
                        res.append((name, e.get("cron"), e.get("time"), list(e.get("args", []))))
            return res

        async def main() -> None:
            model = spec_list()
            for rnd in range(4 if case.get("max1", 3) == 3 else 5):
                got = await src.get_schedules()
                listed = [(s.task_name, s.cron, s.time, list(s.args)) for s in got]
                c.check(listed == model, "listing_is_declared_cron_and_time_entries_of_own_tasks", round=rnd, listed=listed, want=model)
                if listed != model:
                    return
                for s in got:
                    tlabels = (t1 if s.task_name == "t1" else t2).labels
                    c.check(all(s.labels.get(k) == v for k, v in tlabels.items()), "listed_schedule_carries_task_labels", task=s.task_name)
                if not got:
                    return
                i = c.choose(len(got), f"fire{rnd}")
                fired = got[i]
                if fired.time is not None and sum(1 for s in got if s.task_name == fired.task_name and s.time == fired.time) > 1:
                    c.cover("duplicate_times")
                r = src.post_send(fired)
                if hasattr(r, "__await__"):
                    await r
                if fired.cron is not None:
                    c.cover("fired_cron")
                else:
                    c.cover("fired_time")
                    # exactly one entry of that task with that time disappears (the first such entry), nothing else changes
                    for j, m in enumerate(model):
                        if m[0] == fired.task_name and m[1] is None and m[2] == fired.time:
                            del model[j]
                            break
                now = spec_list()
                c.check(now == model, "one_shot_removes_exactly_one_matching_entry", round=rnd, fired=(fired.task_name, fired.cron, fired.time), now=now, want=model)
                if now != model:
                    return

        mt = lab.loop.create_task(main())
        lab.drive(mt)
        exc = mt.exception() if mt.done() else None
    finally:
        lab.close()
        AsyncBroker.global_task_registry.clear()
        AsyncBroker.global_task_registry.update(saved_global)
    c.check(exc is None, "label_source_completes", exc=repr(exc))


HARNESSES = {"on_ready": on_ready, "label_source": label_source}


def budget(tier: str) -> Dict[str, Any]:
    return {"max_paths": 2000000, "budget_s": 900 if tier == "quick" else 3000}
