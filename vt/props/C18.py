"""C18 -- failure budget, reload and shutdown semantics of the process manager.

Real code executed: as C17.  max_fails is a z3 Int: the solver decides, per explored event history, for which budgets the observed
return value / continuation is allowed.
"""
from __future__ import annotations

import signal as real_signal
from typing import Any, Dict, List

from vt import sym
from vt.props import C17, _pm

ID = "C18"
CROSSCHECK = 2  # thorough tier: obligations per case re-decided by the cvc5 binary
LEVEL = "model_checking"
TECHNIQUE = "bounded exhaustive exploration of event histories of the real ProcessManager.start with max_fails as an unconstrained z3 Int; budget obligations discharged by z3 per path"
EXPLANATION = (
    "Bounded model checking of the real supervision loop by path-wise symbolic execution with a symbolic failure budget: for every "
    "history of deaths/SIGHUP/SIGINT/SIGTERM/file changes up to the tick bound z3 checks that the manager returned -1 exactly in the "
    "step where the number of failure restarts it dequeued reached max_fails (never for max_fails < 1, for every integer), that "
    "reload-all restarts every slot exactly once in the tick it is handled without touching the budget, and that shutdown signals each "
    "current worker pid once, nothing else, starts nothing afterwards and returns None."
)
ASSUMPTIONS = C17.ASSUMPTIONS + [
    "signalling the pid of a current slot's process that has already died is not counted as signalling 'another process'",
]
TRUSTED = C17.TRUSTED
REQUIRED_COVERS = ["budget_exit", "budget_not_reached", "budget_disabled", "reload_all_handled", "shutdown_signalled", "shutdown_with_dead_worker"]
bounds = C17.bounds
cases = C17.cases
budget = C17.budget
coverage_extra = C17.coverage_extra


def harness(c: sym.Ctx, case: Dict[str, Any]) -> None:
    tr, mf = C17.explore_one(c, case)
    W = case["workers"]
    n = tr.fail_actions
    ret = tr.returned
    reaches = (mf >= 1) & (mf <= n)  # budget reached at or before the n-th handled failure
    if ret == -1:
        c.cover("budget_exit")
        c.check((mf >= 1) & (mf == n), "failure_exit_exactly_when_budget_reached", handled=n)
        # nothing happens after the deciding dequeue except the return
        last = max(i for i, e in enumerate(tr.ev) if e[1] == "dequeue_failure_restart")
        tail = [e[1] for e in tr.ev[last + 1 :]]
        c.check(tail == ["returned"], "failure_exit_is_immediate", tail=tail)
    else:
        c.check(~reaches if isinstance(reaches, sym.SymBool) else (not reaches), "no_continuation_past_the_budget", handled=n, returned=ret)
        if n > 0:
            c.cover("budget_not_reached" if bool(mf >= 1) else "budget_disabled")
    c.check(ret in (-1, None, "<running>"), "return_value_domain", ret=ret)
    # only *unexpected* exits consume the budget: every failure restart the manager handles answers an exit the environment caused
    # (a process the manager terminated itself - reload-all, replacement - is not an unexpected exit)
    deaths = sum(1 for e in tr.ev if e[1] == "env" and e[2] == "death")
    c.check(n <= deaths, "only_unexpected_exits_consume_the_budget", handled_failure_restarts=n, unexpected_exits=deaths)
    # per tick bookkeeping
    by_tick: Dict[int, List[Any]] = {}
    for e in tr.ev:
        by_tick.setdefault(e[0], []).append(e)
    current: Dict[int, int] = {}  # slot -> pid of the process currently in the slot
    dead: Dict[int, bool] = {}
    killed_after_shutdown = False
    for t in sorted(by_tick):
        evs = by_tick[t]
        starts = [e for e in evs if e[1] == "start"]
        reload_all = any(e[1] == "dequeue" and e[2] == "ReloadAllAction" for e in evs)
        shutdown_handled = any(e[1] == "dequeue" and e[2] == "ShutdownAction" for e in evs)
        if reload_all and t > 0:
            # every slot is restarted exactly once in this tick unless the manager left the loop in it (shutdown / budget)
            left = any(e[1] == "returned" for e in evs)
            per_slot = {s: sum(1 for e in starts if e[2] == s) for s in range(W)}
            if not left:
                c.cover("reload_all_handled")
                c.check(all(v == 1 for v in per_slot.values()), "reload_all_restarts_every_worker_exactly_once", tick=t, starts=per_slot)
            else:
                c.check(all(v <= 1 for v in per_slot.values()), "at_most_one_restart_per_slot_per_tick", tick=t, starts=per_slot)
        elif t > 0:
            per_slot = {s: sum(1 for e in starts if e[2] == s) for s in range(W)}
            c.check(all(v <= 1 for v in per_slot.values()), "at_most_one_restart_per_slot_per_tick", tick=t, starts=per_slot)
        for e in evs:
            if e[1] == "start":
                c.check(not killed_after_shutdown, "no_process_started_after_shutdown", slot=e[2])
                current[e[2]] = e[3]
                dead[e[3]] = False
            elif e[1] == "env" and e[2] == "death":
                dead[e[4]] = True
            elif e[1] == "join" and e[4] is None:
                dead[e[3]] = True
        if shutdown_handled:
            kills = [e for e in evs if e[1] == "os.kill"]
            killed_after_shutdown = True
            c.cover("shutdown_signalled")
            pids = [e[2] for e in kills]
            cur = set(current.values())
            c.check(all(p in cur for p in pids), "signals_only_own_current_workers", pids=pids, current=sorted(cur))
            c.check(all(int(e[3]) == int(real_signal.SIGINT) for e in kills), "signals_sigint", kills=[e[2:] for e in kills])
            c.check(not any(e[4] for e in kills), "never_signals_a_pid_that_was_already_reaped", kills=[e[2:] for e in kills])
            live = [p for p in cur if not dead.get(p, False)]
            if len(live) < len(cur):
                c.cover("shutdown_with_dead_worker")
            c.check(all(pids.count(p) == 1 for p in live) and all(pids.count(p) <= 1 for p in cur), "every_live_worker_signalled_exactly_once",
                    pids=pids, live=sorted(live))
            after = evs[max(i for i, e in enumerate(evs) if e[1] == "os.kill") + 1 :] if kills else []
            c.check(ret is None, "shutdown_returns_success_status", ret=ret)
            c.check(not any(e[1] == "start" for e in after), "no_process_started_after_shutdown", after=[e[1] for e in after])
    # budget is not consumed by reload-all: implied by fail_actions counting only failure restarts and the two budget obligations
