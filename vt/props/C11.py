"""C11 -- the retry middleware re-sends a failing task a bounded number of times.

Real code executed: SimpleRetryMiddleware.on_error, AsyncKicker.(with_task_id/with_labels/kiq/_prepare_message),
labels.prepare_label/parse_label, TaskiqMessage.parse_labels, Receiver.callback/run_task.
Symbolic (z3 Int / Bool): _retries r, max_retries label m, middleware default d, default retry flag, bool retry label.
"""
from __future__ import annotations

import time
from typing import Any, Dict, List

import z3

from vt import models, sym
from vt.props import _wire
from vt.props._recv import InlineExecutor, Lab, make_broker

ID = "C11"
CROSSCHECK = 10  # thorough tier: obligations per case re-decided by the cvc5 binary
LEVEL = "other"
TECHNIQUE = "symbolic execution (z3 Int counters, all label encodings) of one retry step through the real receiver+middleware+kicker, inductive lemma on the attempt count, plus bounded end-to-end histories"
EXPLANATION = (
    "One attempt of an arbitrary retry history is executed symbolically through the real Receiver.callback -> "
    "SimpleRetryMiddleware.on_error -> AsyncKicker.kiq -> wire -> parse_labels chain: the incoming _retries counter, the max_retries "
    "label / default and the boolean retry settings are unconstrained z3 variables, so 're-sent iff enabled and r+1 < max' and "
    "'the re-sent message carries r+1, same id/args/labels' are decided for all integers; an inductive z3 lemma lifts the step to "
    "'exactly max(1, max_retries) executions of an always-failing task'; bounded concrete histories (max_retries 0..6) run end to end "
    "through the real JSON wire."
)
ASSUMPTIONS = [
    "coder axioms int(str(n)) == n and value-preserving wire (JSON serializer is C code; the concrete histories do run through it)",
    "hooks other than the retry middleware do not interfere",
]
TRUSTED = ["z3 5.1 (LIA)", "vt.models (builtin models)", "vt.sym explorer", "CPython asyncio on a virtual clock"]
BOUNDS = {"step": "r, m, d unbounded Int", "histories": "max_retries 0..3 quick / 0..6 thorough, all outcome sequences", "loops": "none in on_error"}
REQUIRED_COVERS = ["resent", "not_resent_limit", "not_resent_disabled", "no_result_signal", "label_str", "label_int", "label_absent",
                   "history_retried", "history_exhausted", "history_succeeded", "history_previous_invocation"]

RETRY_LABEL = ("absent", "bool", "strTrue", "strtrue", "strFalse", "strfalse")
MAX_LABEL = ("absent", "int", "str")


def cases(tier: str, hname: str) -> List[Any]:
    out: List[Any] = []
    if hname == "step":
        for rl in RETRY_LABEL:
            for ml in MAX_LABEL:
                for first in (True, False):
                    out.append({"retry_label": rl, "max_label": ml, "first": first})
    else:
        top = 3 if tier == "quick" else 6
        for m in range(0, top + 1):
            for ml in ("int", "str", "default"):
                for nror in (True, False):
                    out.append({"m": m, "max_label": ml, "no_result_on_retry": nror})
    return out


def _setup(c: sym.Ctx, W: Any, d: Any, dl: Any, nror: bool, outcome_of: Any) -> Any:
    from taskiq.exceptions import NoResultError
    from taskiq.receiver import Receiver

    lab = Lab(c)
    broker = make_broker(lab)
    _wire.install_formatter(broker, c.mode if W is not _REAL[0] else "concrete")
    mw = W.retry.SimpleRetryMiddleware(default_retry_count=d, default_retry_label=dl, no_result_on_retry=nror)
    broker.add_middlewares(mw)
    state = {"n": 0}

    async def target(a: int, x: int = 0) -> Any:
        state["n"] += 1
        lab.rec("task_start", state["n"], a, x)
        o = outcome_of(state["n"])
        if o == "fail":
            raise ValueError("boom")
        if o == "no_result":
            raise NoResultError()
        return "fine"

    broker.register_task(target, task_name="t")
    recv = Receiver(broker, executor=InlineExecutor(), run_startup=False, max_async_tasks=None)
    return lab, broker, recv, state


_REAL: List[Any] = [None]


def step(c: sym.Ctx, case: Dict[str, Any]) -> None:
    W = _wire.world(c.mode)
    symb = c.mode == "sym"
    r = c.int("r", 1) if not case["first"] else 0
    m = c.int("m")
    d = c.int("d")
    dl = c.bool("default_flag")
    b = c.bool("retry_flag")
    nror = c.flag("no_result_on_retry")
    outcome = c.choose(["fail", "ok", "no_result"], "outcome")
    labels: Dict[str, Any] = {"user": "L"}
    rl, ml = case["retry_label"], case["max_label"]
    if rl == "bool":
        labels["retry_on_error"] = b
    elif rl != "absent":
        labels["retry_on_error"] = {"strTrue": "True", "strtrue": "true", "strFalse": "False", "strfalse": "false"}[rl]
    if ml == "int":
        labels["max_retries"] = m
    elif ml == "str":
        labels["max_retries"] = models.StrOf(m) if symb else str(m)
    if not case["first"]:
        labels["_retries"] = r
    c.cover({"absent": "label_absent", "int": "label_int", "str": "label_str"}[ml])
    lab, broker, recv, state = _setup(c, W, d, dl, nror, lambda n: outcome)
    try:
        msg = W.kicker.AsyncKicker("t", broker, dict(labels)).with_task_id("id0")._prepare_message(1, x=2)
        wire = broker.formatter.dumps(msg)

        async def main() -> None:
            await recv.callback(wire.message)

        mt = lab.loop.create_task(main())
        lab.drive(mt)
        exc = mt.exception() if mt.done() else None
    finally:
        lab.close()
    c.check(exc is None and not lab.deadlock, "callback_completes", exc=repr(exc))
    enabled = {"absent": dl, "bool": b, "strTrue": True, "strtrue": True, "strFalse": False, "strfalse": False}[rl]
    m_eff = d if ml == "absent" else m
    want = (outcome == "fail") & sym.mkbool(models.vt_bool(enabled) if not symb else _zb(enabled)) & (r + 1 < m_eff)
    kicks = broker.kicked
    c.check(state["n"] == 1, "executed_once_per_delivery", n=state["n"])
    c.check(len(kicks) <= 1, "at_most_one_resend", kicks=len(kicks))
    if len(kicks) == 1:
        c.cover("resent")
        c.check(want, "resend_only_if_enabled_and_below_limit", r=r, m=m_eff)
        got = broker.formatter.loads(kicks[0].message)
        got.parse_labels()
        c.check(got.task_id == "id0" and got.task_name == "t" and list(got.args) == [1] and dict(got.kwargs) == {"x": 2}, "resent_same_call",
                task_id=got.task_id, args=got.args, kwargs=got.kwargs)
        c.check(models.typed_equal(got.labels.get("_retries"), r + 1), "resent_retry_counter_is_r_plus_1", got=got.labels.get("_retries"))
        for key, val in labels.items():
            if key != "_retries":
                c.check(models.typed_equal(got.labels.get(key), val), "resent_labels_preserved", key=key, got=got.labels.get(key), want=val)
        extra_keys = sorted(set(got.labels) - set(labels) - {"_retries"})
        c.check(not extra_keys, "resent_no_extra_labels", extra=extra_keys)
    else:
        if outcome == "fail":
            c.cover("not_resent_limit" if rl in ("strTrue", "strtrue") else "not_resent_disabled")
        c.check(~want if isinstance(want, sym.SymBool) else (not want), "resend_whenever_enabled_and_below_limit", r=r, m=m_eff)
    stored = [e for e in lab.ev if e[:2] == ("set_result", "begin")]
    if outcome == "no_result":
        c.cover("no_result_signal")
        c.check(len(stored) == 0 and len(kicks) == 0, "no_result_is_never_resent_or_stored")
    elif outcome == "ok":
        c.check(len(stored) == 1 and stored[0][3].is_err is False and len(kicks) == 0, "success_is_stored_not_resent")
    else:
        if len(kicks) == 1 and nror:
            c.check(len(stored) == 0, "resent_attempt_stores_no_result", stored=len(stored))
        else:
            c.check(len(stored) == 1 and stored[0][3].is_err is True and isinstance(stored[0][3].error, ValueError), "failure_is_stored", stored=len(stored))


def _zb(x: Any) -> Any:
    if isinstance(x, sym.SymBool):
        return x.e
    return z3.BoolVal(bool(x))


def history(c: sym.Ctx, case: Dict[str, Any]) -> None:
    """Bounded end-to-end histories on the real modules and the real JSON wire (concrete integers)."""
    W = _wire.real_world()
    _REAL[0] = W
    m, ml, nror = case["m"], case["max_label"], case["no_result_on_retry"]
    labels: Dict[str, Any] = {"user": "L", "retry_on_error": True if c.flag("flag_as_bool") else "True"}
    if ml == "int":
        labels["max_retries"] = m
    elif ml == "str":
        labels["max_retries"] = str(m)
    outcomes: List[str] = []

    def outcome_of(n: int) -> str:
        while len(outcomes) < n:
            outcomes.append(c.choose(["fail", "ok"], f"attempt{len(outcomes) + 1}"))
        return outcomes[n - 1]

    lab, broker, recv, state = _setup(c, W, m if ml == "default" else 2, False, nror, outcome_of)
    with_previous = c.flag("previous_invocation_of_same_task")
    try:
        if with_previous:
            # an earlier, different invocation of the same task fails and is re-sent through the same middleware instance
            c.cover("history_previous_invocation")
            outcomes.append("fail")
            prev = W.kicker.AsyncKicker("t", broker, {"user": "A", "retry_on_error": True, "max_retries": 5}).with_task_id("idA")._prepare_message(9, x=9)
            data0 = broker.formatter.dumps(prev).message

            async def main0() -> None:
                await recv.callback(data0)

            lab.drive(lab.loop.create_task(main0()))
            del outcomes[:]
            state["n"] = 0
            del broker.kicked[:]
            del lab.ev[:]
        msg = W.kicker.AsyncKicker("t", broker, dict(labels)).with_task_id("id0")._prepare_message(1, x=2)
        wire = broker.formatter.dumps(msg)
        delivered = 0
        while wire is not None and delivered < 12:
            before = len(broker.kicked)
            data = wire.message

            async def main() -> None:
                await recv.callback(data)

            mt = lab.loop.create_task(main())
            lab.drive(mt)
            delivered += 1
            wire = broker.kicked[-1] if len(broker.kicked) > before else None
    finally:
        lab.close()
    limit = max(1, m)
    n = state["n"]
    c.check(n <= limit, "executions_never_exceed_max_retries", n=n, limit=limit, outcomes=outcomes)
    c.check(n == delivered, "one_execution_per_delivery")
    all_failed = all(o == "fail" for o in outcomes[:n])
    if all_failed:
        c.check(n == limit, "always_failing_task_runs_exactly_max_retries_times", n=n, limit=limit)
        c.cover("history_exhausted")
    else:
        c.check(outcomes[n - 1] == "ok" and all(o == "fail" for o in outcomes[: n - 1]), "stops_at_first_success", outcomes=outcomes[:n])
        c.cover("history_succeeded")
    if n > 1:
        c.cover("history_retried")
    starts = [e for e in lab.ev if e[0] == "task_start"]
    c.check(all(e[2] == 1 and e[3] == 2 for e in starts), "every_attempt_same_arguments", starts=[e[1:] for e in starts])
    stored = [e for e in lab.ev if e[:2] == ("set_result", "begin")]
    c.check(all(e[2] == "id0" for e in stored), "every_result_under_same_task_id")
    if nror:
        c.check(len(stored) == 1, "only_final_attempt_stored", stored=len(stored), n=n)
    else:
        c.check(len(stored) == n, "every_attempt_stored_when_flag_off", stored=len(stored), n=n)
    if stored:
        final = stored[-1][3]
        c.check(final.is_err == (outcomes[n - 1] == "fail"), "final_attempt_outcome_is_the_stored_result", is_err=final.is_err, last=outcomes[n - 1])
        c.check(final.labels.get("user") == "L", "result_carries_user_labels", labels=final.labels)


HARNESSES = {"step": step, "history": history}


def extra(tier: str, seed: int) -> List[Dict[str, Any]]:
    """Inductive lemma: from the step relation to the counting statement, for all m (z3, LIA + UF)."""
    t0 = time.time()
    m, k = z3.Ints("m k")
    ex = z3.Function("executed", z3.IntSort(), z3.BoolSort())
    limit = z3.If(m >= 1, m, 1)
    s = z3.Solver()
    # step relation proven per path by `step`: attempt j (which carries _retries = j-1) is re-sent iff j < m
    s.add(ex(1))
    s.add(z3.ForAll([k], z3.Implies(k >= 2, ex(k) == z3.And(ex(k - 1), k - 1 < m))))
    j = z3.Int("j")
    # induction hypothesis for j-1, claim for j
    s.add(j >= 2, ex(j - 1) == z3.And(j - 1 >= 1, j - 1 <= limit))
    s.add(ex(j) != z3.And(j >= 1, j <= limit))
    r1 = s.check()
    s2 = z3.Solver()
    s2.add(z3.Not(z3.And(1 >= 1, 1 <= limit)))  # base case: attempt 1 is within max(1, m)
    r2 = s2.check()
    return [{"name": "induction: executed(k) <=> 1 <= k <= max(1, m) (step + base)", "verdict": "unsat" if (r1 == z3.unsat and r2 == z3.unsat) else f"{r1}/{r2}",
             "expected": "unsat", "solver": "z3 5.1 UFLIA", "time_s": round(time.time() - t0, 3)}]
