"""C09 -- labels keep value and type end to end; per-call customisation never leaks.

Real code executed: labels.prepare_label/parse_label, TaskiqMessage.parse_labels, AsyncTaskiqDecoratedTask.kicker/kiq,
SharedDecoratedTask.kicker, AsyncKicker.(with_labels/with_task_id/with_broker/kiq/_prepare_message), Context.requeue,
SimpleRetryMiddleware.on_error.
Symbolic: int label values (z3 Int), bool label values (z3 Bool); float/bytes values are opaque (coder axioms);
histories of kicker operations and of retries/requeues are decision variables.
"""
from __future__ import annotations

from typing import Any, Dict, List

from vt import models, sym
from vt.props import _wire
from vt.props._recv import Lab, make_broker

ID = "C09"
LEVEL = "other"
TECHNIQUE = "symbolic execution (z3 Int/Bool label values, opaque float/bytes under coder axioms) of the real prepare/parse/kicker/retry/requeue code; exhaustive kicker-operation histories for the no-leak part"
EXPLANATION = (
    "Path-wise symbolic execution of the real label pipeline: a label of each primitive type (int as unconstrained z3 Int, bool as z3 "
    "Bool, float/bytes opaque under the axioms float(str(x))=x and b64decode(b64encode(b))=b, several strings) is set on the task or on "
    "a kicker, sent through prepare_label -> wire -> parse_labels and then through every history of <= 2 retries/requeues; on each path "
    "the value seen by the worker must equal the original in value and type.  Separately every history of <= 3 kicker operations "
    "(with_labels / with_task_id / with_broker / plain kiq) on one task (normal and shared) is explored on the real modules and the "
    "task's declared labels, the next call's labels, task id and broker must be unaffected."
)
ASSUMPTIONS = [
    "coder axioms: int(str(n))=n, float(str(x))=x, b64 round trip, value-preserving wire (json/base64/float repr are C code); "
    "non-finite floats and the behaviour of non-JSON serializers are outside the claim",
    "int(float(n)) of a symbolic int is IEEE-754 double rounding, exact for |n| < 2^54 and unconstrained beyond (vt.models.FloatOfInt)",
]
TRUSTED = ["z3 5.1", "vt.models (builtin models + axioms)", "vt.sym explorer"]
BOUNDS = {"label values": "all ints, both bools, 1 opaque float, 1 opaque bytes, 6 strings", "retries/requeues": "<= 2 quick / 3 thorough", "kicker operations": "<= 2 quick / 4 thorough"}
REQUIRED_COVERS = ["int", "bool", "float", "str", "bytes", "retry", "requeue", "task_label", "kicker_label", "leak_history", "shared_task", "boundary_values"]

STRS = ["plain", "True", "123", "", " 7 ", "ünï"]
KINDS = ("int", "bool", "float", "str", "bytes")


def cases(tier: str, hname: str) -> List[Any]:
    out: List[Any] = []
    if hname == "boundary":
        return [{"where": w} for w in ("task", "kicker")]
    if hname == "roundtrip":
        for kind in KINDS:
            for where in ("task", "kicker"):
                out.append({"kind": kind, "where": where, "hops": 2 if tier == "quick" else 3})
    else:
        for shared in (False, True):
            for first in range(len(OPS)):
                out.append({"shared": shared, "first": first, "len": 2 if tier == "quick" else 3})
                if tier == "thorough" and not shared:
                    for second in range(len(OPS)):
                        out.append({"shared": shared, "first": first, "second": second, "len": 4})
    return out


def label_value(c: sym.Ctx, kind: str) -> Any:
    symb = c.mode == "sym"
    if kind == "int":
        return c.int("v")
    if kind == "bool":
        return c.bool("vb")
    if kind == "float":
        return models.OpaqueFloat("f0") if symb else 1.5
    if kind == "str":
        return c.choose(STRS, "s")
    return models.OpaqueBytes(b"\xff\x00ab") if symb else b"\xff\x00ab"


def roundtrip(c: sym.Ctx, case: Dict[str, Any]) -> None:
    from taskiq.exceptions import NoResultError

    W = _wire.world(c.mode)
    kind, where = case["kind"], case["where"]
    c.cover(kind)
    c.cover(where + "_label")
    v = label_value(c, kind)
    steps = [c.choose(["stop", "retry", "requeue"], "step1")]
    if steps[0] != "stop":
        steps.append(c.choose(["stop", "retry", "requeue"], "step2"))
        if case.get("hops", 2) >= 3 and steps[1] != "stop":
            steps.append(c.choose(["stop", "retry", "requeue"], "step3"))
    lab = Lab(c)
    try:
        broker = make_broker(lab)
        _wire.install_formatter(broker, c.mode)
        mw = W.retry.SimpleRetryMiddleware(default_retry_count=5, default_retry_label=True)
        broker.add_middlewares(mw)

        async def fn() -> None:
            return None

        declared = {"decl": "d"}
        if where == "task":
            declared["lbl"] = v
        task = W.decor.AsyncTaskiqDecoratedTask(broker, "t", fn, dict(declared))
        kicker = task.kicker()
        if where == "kicker":
            kicker = kicker.with_labels(lbl=v)
        out: Dict[str, Any] = {}

        async def main() -> None:
            await kicker.with_task_id("id0").kiq(7)
            hop = 0
            while True:
                wire = broker.kicked[-1]
                msg = broker.formatter.loads(wire.message)
                msg.parse_labels()
                got = msg.labels.get("lbl", "<missing>")
                lab.rec("delivered", hop, got)
                c.check(models.typed_equal(got, v), "label_value_and_type_preserved", hop=hop, history=steps[:hop], got=got, want=v, kind=kind)
                c.check(models.typed_equal(msg.labels.get("decl"), "d"), "other_labels_preserved", hop=hop)
                c.check(msg.task_id == "id0" and list(msg.args) == [7], "same_call", hop=hop)
                if hop >= len(steps) or steps[hop] == "stop":
                    return
                n_before = len(broker.kicked)
                if steps[hop] == "retry":
                    c.cover("retry")
                    from taskiq.result import TaskiqResult

                    res = TaskiqResult(is_err=True, return_value=None, execution_time=0.0, labels=msg.labels, error=ValueError("x"))
                    await mw.on_error(msg, res, res.error)
                else:
                    c.cover("requeue")
                    ctx = W.context.Context(msg, broker)
                    try:
                        await ctx.requeue()
                    except NoResultError:
                        pass
                c.check(len(broker.kicked) == n_before + 1, "resent_exactly_once", hop=hop, step=steps[hop])
                if len(broker.kicked) != n_before + 1:
                    return
                hop += 1

        mt = lab.loop.create_task(main())
        lab.drive(mt)
        exc = mt.exception() if mt.done() else None
    finally:
        lab.close()
    c.check(exc is None and not lab.deadlock, "pipeline_completes", exc=repr(exc), history=steps)


OPS = ("plain", "labels", "task_id", "broker", "reused_labels", "reused_plain")
VALS = [True, 1.0, 1, "1", False, -0.0, 0, b"1"]


def _same(a: Any, b: Any) -> bool:
    return type(a) is type(b) and repr(a) == repr(b)


def leak(c: sym.Ctx, case: Dict[str, Any]) -> None:
    """histories of kicker operations on one task -- on the real modules (no symbolic data needed)."""
    from taskiq.brokers.shared_broker import AsyncSharedBroker

    c.cover("leak_history")
    lab = Lab(c)
    try:
        b1 = make_broker(lab)
        b2 = make_broker(lab)
        counter = {"n": 0}

        def gen() -> str:
            counter["n"] += 1
            return f"gen{counter['n']}"

        b1.id_generator = gen
        b2.id_generator = gen
        declared = {"decl": 1, "shared": "task", "flag": True, "ratio": 0.5, "blob": b"\x00\xff"}

        async def fn(i: int) -> None:
            return None

        if case["shared"]:
            c.cover("shared_task")
            sb = AsyncSharedBroker()
            sb.default_broker(b1)
            task = sb.task(task_name="t", **dict(declared))(fn)
        else:
            task = b1.task(task_name="t", **dict(declared))(fn)
        snapshot = dict(task.labels)
        ops = [OPS[case["first"]]] + ([OPS[case["second"]]] if "second" in case else []) + [
            c.choose(OPS, f"op{k}") for k in range(2 if "second" in case else 1, case["len"])]

        reused = task.kicker()
        reused_labels: Dict[str, Any] = {}

        async def main() -> None:
            for k, op in enumerate(ops):
                n1, n2 = len(b1.kicked), len(b2.kicked)
                want = dict(declared)
                if op == "plain":
                    await task.kiq(k)
                elif op == "labels":
                    val = VALS[c.choose(len(VALS), f"val{k}")]
                    await task.kicker().with_labels(extra=val, shared=f"call{k}").kiq(k)
                    want.update(extra=val, shared=f"call{k}")
                elif op == "reused_labels":
                    val = VALS[c.choose(len(VALS), f"val{k}")]
                    reused_labels.update({f"r{k}": val, "rlast": val})
                    await reused.with_labels(**{f"r{k}": val, "rlast": val}).kiq(k)
                    want.update(reused_labels)
                elif op == "reused_plain":
                    await reused.kiq(k)
                    want.update(reused_labels)
                elif op == "task_id":
                    await task.kicker().with_task_id(f"custom{k}").kiq(k)
                else:
                    await task.kicker().with_broker(b2).kiq(k)
                sent_to_2 = len(b2.kicked) == n2 + 1
                sent_to_1 = len(b1.kicked) == n1 + 1
                c.check(sent_to_1 != sent_to_2 and sent_to_2 == (op == "broker"), "broker_override_only_for_that_call", op=op, k=k, ops=ops)
                src = b2 if sent_to_2 else b1
                if not (sent_to_1 or sent_to_2):
                    return
                msg = src.formatter.loads(src.kicked[-1].message)
                msg.parse_labels()
                got = dict(msg.labels)
                c.check(sorted(got) == sorted(want) and all(_same(got[x], want[x]) for x in want), "message_labels_are_declared_plus_own_overrides",
                        op=op, k=k, ops=ops, got=got, want=want)
                c.check((msg.task_id == f"custom{k}") if op == "task_id" else msg.task_id.startswith("gen"), "task_id_override_only_for_that_call",
                        op=op, k=k, ops=ops, task_id=msg.task_id)
                now = dict(task.labels)
                c.check(sorted(now) == sorted(snapshot) and all(_same(now[x], snapshot[x]) for x in snapshot), "declared_labels_unchanged",
                        op=op, k=k, ops=ops, now=now, declared=snapshot)

        mt = lab.loop.create_task(main())
        lab.drive(mt)
        exc = mt.exception() if mt.done() else None
    finally:
        lab.close()
    c.check(exc is None, "history_completes", exc=repr(exc))


BOUNDARY_VALUES = [0, -1, 2**70, 2**53 + 1, -(2**63 - 1), 10**30 + 7, 0.0, -0.0, 1e308, False, True, "", " ", "0", "False", "None", b"", b"\x00", b"\xff\xfe"]


def boundary(c: sym.Ctx, case: Dict[str, Any]) -> None:
    """boundary label values of the five primitive types through the real modules and the real JSON wire (no models)"""
    c.cover("boundary_values")
    lab = Lab(c)
    try:
        broker = make_broker(lab)
        v = BOUNDARY_VALUES[c.choose(len(BOUNDARY_VALUES), "value")]
        w = BOUNDARY_VALUES[c.choose(len(BOUNDARY_VALUES), "other")]

        async def fn() -> None:
            return None

        declared = {"lbl": v} if case["where"] == "task" else {}
        task = broker.task(task_name="t", **declared)(fn)
        kicker = task.kicker()
        if case["where"] == "kicker":
            kicker = kicker.with_labels(lbl=v)
        kicker = kicker.with_labels(other=w)

        async def main() -> None:
            await kicker.with_task_id("id0").kiq()

        mt = lab.loop.create_task(main())
        lab.drive(mt)
        exc = mt.exception() if mt.done() else None
    finally:
        lab.close()
    c.check(exc is None and len(broker.kicked) == 1, "pipeline_completes", exc=repr(exc), value=v)
    if exc is None and broker.kicked:
        msg = broker.formatter.loads(broker.kicked[0].message)
        msg.parse_labels()
        for key, want in (("lbl", v), ("other", w)):
            got = msg.labels.get(key, "<missing>")
            c.check(_same(got, want), "label_value_and_type_preserved", key=key, got=got, want=want, kind=type(want).__name__, history=[])


HARNESSES = {"roundtrip": roundtrip, "leak": leak, "boundary": boundary}


def signature(f: Dict[str, Any]) -> str:
    sig = f["label"]
    if f["label"] == "label_value_and_type_preserved":
        sig += ":" + str(f["info"].get("kind")) + ":" + ">".join(f["info"].get("history", []))
    return sig


def extra(tier: str, seed: int) -> List[Dict[str, Any]]:
    """the rounding formula of the int(float(n)) model, run on plain ints, against CPython"""
    import random

    from vt.models import FloatOfInt

    rng = random.Random(seed)
    bad: List[str] = []
    n_cmp = 20000 if tier == "quick" else 200000
    for _ in range(n_cmp):
        n = rng.choice([rng.randrange(-(2**54) + 1, 2**54), 2**53 + rng.randrange(-5, 2000), -(2**53) - rng.randrange(-5, 2000),
                        2**54 - rng.randrange(1, 50), -(2**54) + rng.randrange(1, 50)])
        m = FloatOfInt(n).to_int(force_model=True)
        if m != int(float(n)):
            bad.append(f"n={n} model={m} real={int(float(n))}")
    return [{"name": f"int(float(n)) model differential validation ({n_cmp} comparisons, |n| < 2^54)", "verdict": "unsat" if not bad else "mismatch",
             "expected": "unsat", "solver": "differential test vs CPython float", "time_s": 0, "mismatches": bad[:10]}]
