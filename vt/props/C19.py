"""C19 -- any task exception survives result serialisation.

Real code executed: serialization.prepare_exception/_prepare_exception/get_pickleable_exception/find_pickleable_exception/
_UnpickleableExceptionWrapper/ensure_serializable/safe_repr/exception_to_python/get_pickled_exception/create_exception_cls,
TaskiqResult field serializer / validator / __getstate__ (JSON text, JSON dict and pickle round trips, real json/pickle/pydantic).
Decision variables: exception graph (<= 2 nodes quick / 3 thorough; cause and context links to any node incl. self-loops and
cycles; suppress flags), class kind per node, argument kind, encoding.
"""
from __future__ import annotations

import itertools
import pickle
from typing import Any, Dict, List, Optional, Tuple

from vt import sym

ID = "C19"
LEVEL = "other"
TECHNIQUE = "bounded exhaustive path exploration (symbolic choice variables) of the real prepare_exception / exception_to_python / TaskiqResult round trips over exception graphs, classes and argument kinds"
EXPLANATION = (
    "Path-wise symbolic execution of the real result (de)serialisation code: the exception graph (nodes, cause/context links to any "
    "node including cycles, suppress flags), the class kind of each node (builtin, module-level, nested, local, dynamic, custom "
    "__init__, BaseException-only), the argument kind (JSON-native, non-JSON, unpicklable, un-repr-able, picklable-but-not-"
    "unpicklable) and the encoding (JSON text, JSON dict, pickle) are decision variables; on every path the round trip must not fail, "
    "must yield the original class and arguments when the class is importable and the arguments representable (else an accepted "
    "stand-in), and for JSON must preserve cause, context-unless-suppressed and the suppress flag with back-links cut."
)
ASSUMPTIONS = [
    "bounded graphs: depth 6 of the property statement is not reached (2 nodes quick, 3 thorough); the recursion is the same code at every level",
    "json / pickle / pydantic-core / repr are executed, not encoded: which values they accept is observed, not proved",
]
TRUSTED = ["json, pickle, pydantic (executed)", "vt.sym explorer"]
REQUIRED_COVERS = ["json", "json_dict", "pickle", "cycle", "self_loop", "suppressed_context", "stand_in", "exact_class", "unrepresentable_arg", "bad_unpickle_arg", "three_nodes", "late_import", "stored_twice"]


def bounds(tier: str) -> Dict[str, Any]:
    return {"nodes": "<= 2 quick / <= 3 thorough", "class kinds": len(CLASS_KINDS), "argument kinds": len(ARG_KINDS), "encodings": 3}


class ModExc(Exception):
    pass


class TwoArg(Exception):
    def __init__(self, a: Any, b: Any) -> None:
        super().__init__(a)
        self.b = b


class BaseOnlyExc(BaseException):
    pass


class Outer:
    class Inner(Exception):
        pass


def make_local() -> Any:
    class LocalExc(Exception):
        pass

    return LocalExc


DynExc = type("DynamicExc", (ModExc,), {"__module__": __name__})
del_name = "DynExc"  # the class is reachable as DynExc, but its __name__ 'DynamicExc' is not an attribute of this module


class Unreprable:
    def __repr__(self) -> str:
        raise RuntimeError("no repr")


class Plain:
    def __repr__(self) -> str:
        return "<Plain object>"


CLASS_KINDS = ("builtin", "module", "nested", "local", "dynamic", "twoarg", "baseonly")
ARG_KINDS = ("none", "str", "mixed", "nested_json", "nonjson", "lambda", "unreprable", "bad_unpickle", "scalar_subclass")
ENCODINGS = ("json", "json_dict", "pickle")


def build_exc(kind: str, args: Tuple[Any, ...]) -> BaseException:
    if kind == "builtin":
        return ValueError(*args)
    if kind == "module":
        return ModExc(*args)
    if kind == "nested":
        return Outer.Inner(*args)
    if kind == "local":
        return make_local()(*args)
    if kind == "dynamic":
        return DynExc(*args)
    if kind == "twoarg":
        return TwoArg(args[0] if args else "a", "b")
    return BaseOnlyExc(*args)


def local_scalars() -> Tuple[Any, ...]:
    """instances of str / int / float subclasses that are defined inside a function: every encoder treats them as scalars, but
    pickle cannot locate their classes"""
    class LStr(str):
        pass

    class LInt(int):
        pass

    class LFloat(float):
        pass

    return (LStr("s"), LInt(3), LFloat(1.5))


def build_args(kind: str) -> Tuple[Any, ...]:
    if kind == "scalar_subclass":
        return local_scalars()
    return {
        "none": (), "str": ("msg",), "mixed": (1, "a", None, 2.5, True), "nested_json": ({"k": [1, 2, {"z": None}]}, [1, "x"]),
        "nonjson": ("a", Plain()), "lambda": ((lambda: 0),), "unreprable": (Unreprable(), "tail"), "bad_unpickle": (TwoArg("x", "y"),),
    }[kind]


def cases(tier: str) -> List[Any]:
    out = []
    for enc in ENCODINGS:
        for ck in CLASS_KINDS:
            for ak in ARG_KINDS:
                out.append({"enc": enc, "cls0": ck, "args0": ak, "n": 1})
            out.append({"enc": enc, "cls0": ck, "args0": "str", "n": 2})
            if tier == "thorough":
                out.append({"enc": enc, "cls0": ck, "args0": "str", "n": 3, "plain_rest": True})
        out.append({"enc": enc, "late": True, "n": 1, "cls0": "module", "args0": "str"})
    # three nodes, every link combination (shared nodes reached over two paths, 2-cycles below the root), JSON
    for enc in ("json", "json_dict"):
        for root in itertools.product(range(4), range(4), range(2)):
            out.append({"enc": enc, "cls0": "module", "args0": "str", "n": 3, "root": list(root), "plain_rest": True})
    return out


def srepr(x: Any) -> str:
    try:
        return repr(x)[:200]
    except BaseException:  # noqa: BLE001
        try:
            return "<%s, repr failed>" % type(x).__name__
        except BaseException:  # noqa: BLE001
            return "<?>"


def sstr(x: Any) -> str:
    try:
        return str(x)
    except BaseException:  # noqa: BLE001
        return ""


def importable(kind: str) -> bool:
    return kind in ("builtin", "module", "nested", "twoarg", "baseonly")


def json_ok(ak: str) -> bool:
    return ak in ("none", "str", "mixed", "nested_json")


def expected_args(ak: str, args: Tuple[Any, ...], enc: str) -> Optional[List[Any]]:
    """args after the round trip; None = not pinned down by the property (only 'text form' is required)"""
    if enc == "pickle":
        return list(args) if ak in ("none", "str", "mixed", "nested_json") else None
    if json_ok(ak):
        return [list(a) if isinstance(a, tuple) else a for a in args]
    return None


def harness(c: sym.Ctx, case: Dict[str, Any]) -> None:
    from taskiq.result import TaskiqResult

    enc, n = case["enc"], case["n"]
    c.cover(enc)
    if case.get("late"):
        return late_import(c, enc)
    kinds = [case["cls0"]] + [("module" if case.get("plain_rest") else c.choose(("module", "local", "builtin"), f"cls{k}")) for k in range(1, n)]
    akinds = [case["args0"]] + ["str"] * (n - 1)
    nodes = [build_exc(kinds[k], build_args(akinds[k]) if k == 0 else (f"n{k}",)) for k in range(n)]
    links: List[Tuple[Optional[int], Optional[int], bool]] = []
    for k in range(n):
        opts = [None] + list(range(n))
        if k == 0 and "root" in case:
            cause, context, suppress = opts[case["root"][0]], opts[case["root"][1]], bool(case["root"][2])
        else:
            cause = opts[c.choose(len(opts), f"cause{k}")]
            context = opts[c.choose(len(opts), f"context{k}")]
            suppress = c.flag(f"suppress{k}")
        links.append((cause, context, suppress))
    if n == 3:
        c.cover("three_nodes")
    for k, (cause, context, suppress) in enumerate(links):
        nodes[k].__cause__ = nodes[cause] if cause is not None else None
        nodes[k].__context__ = nodes[context] if context is not None else None
        nodes[k].__suppress_context__ = suppress
        if cause == k or context == k:
            c.cover("self_loop")
        if suppress and context is not None:
            c.cover("suppressed_context")
    if n > 1 and any(x is not None and x != k for k, l in enumerate(links) for x in l[:2]):
        c.cover("cycle")
    if akinds[0] == "unreprable":
        c.cover("unrepresentable_arg")
    if akinds[0] == "bad_unpickle":
        c.cover("bad_unpickle_arg")
    res = TaskiqResult(is_err=True, return_value=None, execution_time=0.1, error=nodes[0], labels={})
    if n <= 2 and c.flag("same_result_stored_before_with_the_other_coder"):
        # a result object may be stored twice (e.g. a pickling cache in front of a JSON backend): the first store must not
        # leave state behind that changes the second
        c.cover("stored_twice")
        try:
            if enc == "pickle":
                res.model_dump_json()
            else:
                pickle.dumps(res)
        except BaseException as exc:  # noqa: BLE001
            c.check(False, "round_trip_never_fails", enc="other coder first", exc=repr(exc)[:200])
            return
    # ---- totality
    try:
        if enc == "json":
            loaded = TaskiqResult.model_validate_json(res.model_dump_json())
        elif enc == "json_dict":
            loaded = TaskiqResult.model_validate(res.model_dump())
        else:
            loaded = pickle.loads(pickle.dumps(res))
    except BaseException as exc:  # noqa: BLE001
        c.check(False, "round_trip_never_fails", enc=enc, exc=repr(exc)[:300], kinds=kinds, args=akinds[0], links=links)
        return
    err = loaded.error
    c.check(isinstance(err, BaseException), "loaded_error_is_an_exception", got=type(err).__name__)
    if not isinstance(err, BaseException):
        return
    # ---- the tree
    def compare(got: Any, k: int, path: List[int], where: str) -> None:
        orig = nodes[k]
        kind, ak = kinds[k], akinds[k]
        oargs = orig.args
        reconstructible = kind != "twoarg"
        representable = ak in ("none", "str", "mixed", "nested_json")
        exact = importable(kind) and reconstructible and representable and (enc != "pickle" or kind != "local")
        if enc == "pickle":
            exact = kind in ("builtin", "module", "nested", "baseonly", "dynamic_never") and representable
        if exact:
            c.cover("exact_class")
            c.check(type(got) is type(orig), "importable_class_with_representable_args_is_restored_exactly", where=where, kind=kind,
                    got=type(got).__name__, want=type(orig).__name__, enc=enc)
            want_args = expected_args(ak, oargs, enc)
            if want_args is not None:
                c.check(list(got.args) == want_args, "arguments_restored_equal", where=where, got=list(got.args), want=want_args, enc=enc)
        else:
            c.cover("stand_in")
            name_ok = type(got).__name__ in (type(orig).__name__, type(orig).__qualname__)
            base_ok = any(isinstance(got, b) for b in type(orig).__mro__[1:] if b not in (object,))
            text_ok = type(orig).__name__ in sstr(got) or type(orig).__name__ in srepr(got)
            c.check(isinstance(got, BaseException) and (name_ok or base_ok or text_ok), "stand_in_is_named_base_or_wrapper", where=where,
                    kind=kind, got=srepr(got), enc=enc)
            if name_ok and not representable and enc != "pickle":
                c.check(all(isinstance(a, (str, int, float, bool, type(None), list, dict)) for a in got.args), "unencodable_arguments_replaced_by_text",
                        where=where, got=[type(a).__name__ for a in got.args])
        if enc == "pickle":
            return  # links are only promised for JSON
        cause, context, suppress = links[k]
        c.check(got.__suppress_context__ == suppress, "suppress_context_flag_preserved", where=where, got=got.__suppress_context__, want=suppress, links=links)
        new_path = path + [k]
        for name, target, dropped in (("__cause__", cause, False), ("__context__", context, suppress)):
            sub = getattr(got, name)
            if target is None or dropped or target in new_path:
                c.check(sub is None, "absent_suppressed_or_back_link_is_cut", where=where + "." + name, got=srepr(sub), target=target,
                        dropped=dropped, links=links)
            else:
                c.check(sub is not None, "link_preserved", where=where + "." + name, links=links)
                if sub is not None:
                    compare(sub, target, new_path, where + "." + name)

    compare(err, 0, [], "error")


def late_import(c: sym.Ctx, enc: str) -> None:
    """A result stored by a worker that knows the exception's module is loaded first by a process that has not imported that
    module (stand-in expected), then again after the module was imported: the second load must yield the real class."""
    import sys
    import types

    from taskiq.result import TaskiqResult

    c.cover("late_import")
    name = "vt_c19_late_module"
    mod = types.ModuleType(name)
    exec("class LateExc(Exception):\n    pass\nclass Outer:\n    class Inner(Exception):\n        pass\n", mod.__dict__)  # noqa: S102
    sys.modules[name] = mod
    nested = c.flag("nested_class")
    cls = mod.Outer.Inner if nested else mod.LateExc
    exc = cls("late", 1)
    exc.__cause__ = mod.LateExc("inner")
    res = TaskiqResult(is_err=True, return_value=None, execution_time=0.1, error=exc, labels={})
    try:
        if enc == "pickle":
            blob: Any = pickle.dumps(res)
        elif enc == "json":
            blob = res.model_dump_json()
        else:
            blob = res.model_dump()
        order = c.choose(["absent_then_present", "present_only", "present_absent_present"], "order")
        steps = {"absent_then_present": [False, True], "present_only": [True], "present_absent_present": [True, False, True]}[order]
        for present in steps:
            if present:
                sys.modules[name] = mod
            else:
                sys.modules.pop(name, None)
            if enc == "pickle" and not present:
                continue  # unpickling imports the module by name; an absent module is not a stand-in case for pickle
            try:
                if enc == "pickle":
                    loaded = pickle.loads(blob)
                elif enc == "json":
                    loaded = TaskiqResult.model_validate_json(blob)
                else:
                    loaded = TaskiqResult.model_validate(blob)
            except BaseException as e:  # noqa: BLE001
                c.check(False, "round_trip_never_fails", enc=enc, exc=repr(e)[:200], present=present, order=order)
                return
            err = loaded.error
            if present:
                c.check(type(err) is cls and list(err.args) == ["late", 1], "importable_class_with_representable_args_is_restored_exactly",
                        got=type(err).__module__ + "." + type(err).__qualname__, order=order, enc=enc)
                if enc != "pickle":
                    c.check(type(err.__cause__) is mod.LateExc, "importable_class_with_representable_args_is_restored_exactly", where="cause",
                            got=type(err.__cause__).__name__, order=order)
            else:
                c.check(isinstance(err, Exception) and type(err).__name__ in (cls.__name__, cls.__qualname__), "stand_in_is_named_base_or_wrapper",
                        got=srepr(err), order=order)
    finally:
        sys.modules.pop(name, None)


def budget(tier: str) -> Dict[str, Any]:
    return {"max_paths": 3000000, "budget_s": 900 if tier == "quick" else 3300}
