"""C05 -- graceful shutdown drains accepted work and terminates.

Real code executed: Receiver.__init__/listen/prefetcher/runner/task_cb/callback.  Symbolic: A >= 1, P >= 0, N >= 1 (z3 Ints);
choices: instant of the stop request relative to arrivals/completions/poll timers, never-ending tasks, wait_tasks_timeout set or not.
"""
from __future__ import annotations

import itertools
from typing import Any, Dict, List

from vt import sym
from vt.props import C04, _listen

ID = "C05"
LEVEL = "model_checking"
TECHNIQUE = "bounded symbolic model checking of the real shutdown path: stop instant and schedules as choice variables, A/P/N as z3 Ints, stuck-state and drain obligations on complete runs"
EXPLANATION = (
    "Bounded model checking by path-wise symbolic execution of the real Receiver.listen: the stop request is injected at every "
    "quiescent point of every explored schedule of arrivals, completions and poll timers (K explored environment choices, then a "
    "deterministic drain), with max_async_tasks / max_prefetch / max_tasks_to_execute as z3 integers and wait_tasks_timeout absent or "
    "set, including never-ending tasks: at most one message is taken after the request, every taken message is processed to the end "
    "before listen() returns unless the timeout elapsed, listen() does return (no stuck state), and with a quota N exactly N messages are accepted."
)
ASSUMPTIONS = C04.ASSUMPTIONS + ["hard-kill path and cancellation of listen() are outside", "'promptly' is checked as 'within one second of virtual time after the later of the request, the last completion / acknowledgement and the expiry of wait_tasks_timeout' (the unchanged worker needs one 0.3 s poll)"]
TRUSTED = C04.TRUSTED
REQUIRED_COVERS = ["backlog_ready", "mid_chain_event", "stop_in_flight", "stop_idle", "wtt_elapsed", "never_ending", "quota_shutdown", "taken_after_stop"]
budget = C04.budget
coverage_extra = C04.coverage_extra


def bounds(tier: str) -> Dict[str, Any]:
    return {"messages": "M = 3 quick / 4 thorough", "A": "unbounded Int >= 1", "P": "unbounded Int >= 0 (plain, quota) / {0,1} (timeout cases)",
            "N": "unbounded Int >= 1", "wait_tasks_timeout": "None, 0 or 5.0", "backlog": "all M + 2 messages ready in the broker from the start (A, P symbolic, and A = 1, P = 0)", "environment choices": "K = 6 quick / 8 thorough, then deterministic drain"}


def cases(tier: str) -> List[Any]:
    out = []
    M = 3 if tier == "quick" else 4
    K = 6 if tier == "quick" else 8
    # "backlog": the broker already holds every message, so a fetch completes in its first step without suspending (a local
    # queue / buffered consumer); "backlog1": the same with max_async_tasks = 1 and max_prefetch = 0 fixed
    for cfg in ("plain", "quota", "wtt0", "wtt1", "wttzero", "ackfuture", "rawpayload", "backlog", "backlog1"):
        for prefix in itertools.product(range(3), repeat=3 if tier == "quick" else 4):
            out.append({"M": M, "K": K, "cfg": cfg, "prefix": list(prefix)})
    for cfg in ("plain", "quota", "wtt0", "ackfuture"):
        for first in range(3):
            out.append({"M": 2 if tier == "quick" else 3, "K": 4 if tier == "quick" else 5, "cfg": cfg, "prefix": [first], "preempt": 1 if tier == "quick" else 2})
    return out


def harness(c: sym.Ctx, case: Dict[str, Any]) -> None:
    M, cfg = case["M"], case["cfg"]
    outcomes = ["return"] * M
    wtt = None
    P: Any = "sym"
    if cfg.startswith("wtt"):
        wtt = 0.0 if cfg == "wttzero" else 5.0
        P = 0 if cfg == "wttzero" else int(cfg[-1])
        outcomes = [c.choose(["return", "never"], f"outcome{k}") for k in range(M)]
    kinds = ["valid"] * M
    if cfg == "rawpayload":
        kinds[1] = "malformed_raw"
    if cfg == "backlog1":
        P = 0
    if cfg.startswith("backlog"):
        M += 2
        kinds, outcomes = ["valid"] * M, ["return"] * M
        c.cover("backlog_ready")
    spec = {"M": M, "kinds": kinds, "outcomes": outcomes, "A": 1 if cfg == "backlog1" else "sym", "P": P, "N": "sym" if cfg == "quota" else "none",
            "ready": cfg.startswith("backlog"), "wtt": wtt, "K": case["K"], "prefix": case["prefix"], "ack_mode": "future" if cfg == "ackfuture" else False, "preempt": case.get("preempt", 0)}
    r = _listen.run(c, spec)
    ev = r.lab.ev
    if any(e[0] == "preempt" for e in ev):
        c.cover("mid_chain_event")
    n_never = outcomes.count("never")
    if n_never:
        c.cover("never_ending")
    taken = [e[1] for e in ev if e[0] == "taken"]
    # --- 1. at most one further message after the request
    if r.stop_at is not None:
        after = sum(1 for e in ev[r.stop_at:] if e[0] == "taken")
        before = _listen.counts_at(ev, r.stop_at)
        c.cover("stop_in_flight" if before["unfinished"] > 0 else "stop_idle")
        if after:
            c.cover("taken_after_stop")
        c.check(after <= 1, "at_most_one_message_taken_after_stop", after=after)
    # --- 2. it terminates
    hanging = [i for i in taken if outcomes[i] == "never" and any(e[0] == "task_start" and e[1] == i for e in ev)]
    info = dict(r.info, hanging=len(hanging), wtt=wtt, runner_waiting_for_slot=r.info.get("sem_waiters", 0) > 0)
    c.check(r.returned, "listen_returns_after_shutdown_request", **info)
    if not r.returned:
        return
    c.check("listen_exception" not in r.info, "listen_returns_normally", info=r.info)
    # --- 3. drained: everything taken was started and finished, unless the timeout elapsed
    ret_at = len(ev)
    unfinished = [i for i in taken if not any(e[0] == "cb_end" and e[1] == i for e in ev[:ret_at])]
    unstarted = [i for i in taken if not any(e[0] == "cb_begin" and e[1] == i for e in ev)]
    c.check(not unstarted, "every_taken_message_is_started_before_return", unstarted=unstarted, taken=taken, A=r.A, P=r.P, N=r.N)
    if unfinished:
        elapsed = r.info.get("t_end", 0.0) - r.info.get("t_stop", r.info.get("t_end", 0.0))
        c.cover("wtt_elapsed")
        c.check(wtt is not None and elapsed >= wtt - 1e-9, "returns_with_running_tasks_only_after_wait_tasks_timeout",
                unfinished=unfinished, wtt=wtt, elapsed=elapsed)
    # --- 3a. ... and it returns promptly once shutdown was requested and everything it took has finished (or the timeout elapsed):
    # the unchanged worker notices the request within one 0.3 s poll; "promptly" is read as "within one second" (virtual time)
    if r.stop_at is not None and "t_stop" in r.info and "t_end" in r.info:
        ends = [t for e, t in zip(ev, r.lab.ev_t) if e[0] in ("cb_end", "ack")]
        settled = r.info["t_stop"] + wtt if unfinished and wtt is not None else max([r.info["t_stop"]] + ends)
        delay = r.info["t_end"] - settled
        c.check(delay <= 1.0 + 1e-9, "returns_promptly_once_drained", delay=round(delay, 3), t_stop=r.info["t_stop"], settled=round(settled, 3),
                t_end=r.info["t_end"], unfinished=unfinished)
    # --- 3b. ... including its acknowledgement
    if not unfinished:
        unacked = [i for i in taken if kinds[i] == "valid" and not any(e[0] == "ack" and e[1] == i for e in ev)]
        c.check(not unacked, "every_taken_message_is_acknowledged_before_return", unacked=unacked, taken=taken)
    # --- 4. quota
    if cfg == "quota":
        c.check(len(taken) <= r.N, "never_accepts_more_than_N_messages", taken=len(taken), N=r.N)
        if r.stop_at is None:
            c.cover("quota_shutdown")
            c.check(len(taken) == r.N, "accepts_exactly_N_messages", taken=len(taken), N=r.N)


def signature(f: Dict[str, Any]) -> str:
    sig = f["label"]
    if f["label"] == "listen_returns_after_shutdown_request":
        i = f["info"]
        sig += f":runner_waiting_for_slot={i.get('runner_waiting_for_slot')}:wtt={'set' if i.get('wtt') is not None else 'none'}:hanging_tasks={'yes' if i.get('hanging') else 'no'}"
    return sig
