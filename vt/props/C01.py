"""C01 -- every message taken from the broker is executed exactly once.

Real code executed: Receiver.__init__/listen/prefetcher/runner/task_cb/callback/run_task.  Symbolic: A >= 1, P >= 0, N >= 1 (z3 Ints,
or absent); choices: message kinds (valid / malformed / unknown task), arrival / completion / poll-timer / stop / end-of-stream order.
"""
from __future__ import annotations

import itertools
from typing import Any, Dict, List

from vt import sym
from vt.props import C04, _listen

ID = "C01"
LEVEL = "model_checking"
TECHNIQUE = "bounded symbolic model checking of the real prefetcher/runner/callback: schedules and message kinds as choice variables, A/P/N as z3 Ints through the real semaphores and quota test; exactly-once obligations on complete runs"
EXPLANATION = (
    "Bounded model checking by path-wise symbolic execution of the real Receiver.listen: every sequence of valid / malformed / "
    "unknown-task messages, every order of arrivals, completions, poll timers, the stop request and the end of the stream (K explored "
    "environment choices followed by a deterministic drain to a complete run) with max_async_tasks, max_prefetch and "
    "max_tasks_to_execute as unconstrained z3 integers (or absent): on every complete run each message the broker handed over is "
    "processed exactly once - one invocation of the task function for a well-formed known task, none for the others - and skipped "
    "messages do not disturb the rest."
)
ASSUMPTIONS = [a for a in C04.ASSUMPTIONS if "quiescent" not in a] + [
    "environment events are injected when the loop is quiescent and, in the preemption cases, at one arbitrary boundary between two loop iterations (M=2,K=4 quick / M=3,K=5 thorough)",
    "a cancelled or never-started fetch takes nothing from the scripted broker (brokers that consume a message and are then cancelled before yielding are outside)",
]
TRUSTED = C04.TRUSTED
REQUIRED_COVERS = ["messages_ready_at_start", "late_registration_known", "late_registration_unknown", "mid_chain_event", "malformed", "malformed_raw", "unknown", "valid", "stop_in_flight", "quota", "stream_end", "unlimited"]
budget = C04.budget
coverage_extra = C04.coverage_extra


def bounds(tier: str) -> Dict[str, Any]:
    return {"messages": "M = 3 quick / 4 thorough, all kind sequences", "A": "None, unbounded Int >= 1, or any Int (<= 0 means unlimited)", "P": "unbounded Int >= 0",
            "N": "None, unbounded Int >= 1, or Int >= 0 (0 disables the quota)", "environment choices": "K = 6 quick / 7 thorough, then deterministic drain"}


def cases(tier: str) -> List[Any]:
    out = []
    M = 3 if tier == "quick" else 4
    K = 6 if tier == "quick" else 7
    depth = 2 if tier == "quick" else 4
    for cfg in ("A", "AN", "noneA", "end", "anyA", "ready"):
        for k0 in ("valid", "malformed", "unknown", "malformed_raw") if cfg not in ("anyA", "ready") else ("valid",):
            for prefix in itertools.product(range(3), repeat=depth):
                out.append({"M": M, "K": K - 1 if cfg == "anyA" else K, "cfg": cfg, "k0": k0, "prefix": list(prefix)})
    # a task that becomes known while the worker runs: messages before the registration are skipped, later ones are executed
    for first in range(4):
        out.append({"M": 3, "K": 6 if tier == "quick" else 7, "cfg": "A", "k0": "late_task", "prefix": [first], "late": True})
    # external events landing between two loop iterations (not only when the loop is idle)
    for cfg in ("A", "AN", "noneA", "end"):
        for k0 in ("valid",) if tier == "quick" else ("valid", "malformed_raw"):
            for first in range(3):
                out.append({"M": 2 if tier == "quick" else 3, "K": 4 if tier == "quick" else 5, "cfg": cfg, "k0": k0, "prefix": [first], "preempt": 1})
    return out


def harness(c: sym.Ctx, case: Dict[str, Any]) -> None:
    M = case["M"]
    if case.get("late"):
        kinds = ["late_task", "late_task", c.choose(("late_task", "valid"), "kind2")]
    else:
        kinds = [case["k0"]] + [c.choose(("valid", "unknown", "malformed_raw") if case["M"] <= 3 and not case.get("preempt") else ("valid", "malformed_raw", "empty"), f"kind{k}") for k in range(1, M)]
    cfg = case["cfg"]
    spec = {"M": M, "kinds": kinds, "outcomes": ["return"] * M, "A": "none" if cfg == "noneA" else ("any" if cfg == "anyA" else "sym"), "P": "sym",
            "N": "sym" if cfg == "AN" else ("sym0" if cfg in ("anyA", "ready") else "none"), "ready": cfg == "ready", "wtt": None, "K": case["K"], "prefix": case["prefix"], "stream_end": cfg == "end", "preempt": case.get("preempt", 0)}
    r = _listen.run(c, spec)
    check_exactly_once(c, r, kinds)
    for k in kinds:
        c.cover(k)
    if any(e[0] == "preempt" for e in r.lab.ev):
        c.cover("mid_chain_event")
    if cfg == "noneA":
        c.cover("unlimited")
    if cfg == "AN":
        c.cover("quota")
    if cfg == "ready":
        c.cover("messages_ready_at_start")
    if any(e == ("env", "stream") or e[:2] == ("forced", "stream") for e in r.lab.ev) or cfg == "end":
        c.cover("stream_end")


def check_exactly_once(c: sym.Ctx, r: Any, kinds: List[str]) -> None:
    ev = r.lab.ev
    taken = [e[1] for e in ev if e[0] == "taken"]
    c.check(r.returned and not r.stuck, "run_completes", info=r.info)
    if not r.returned:
        return
    c.check("listen_exception" not in r.info, "listen_returns_normally", info=r.info)
    if r.stop_at is not None:
        live_at_stop = _listen.counts_at(ev, r.stop_at)["unfinished"]
        if live_at_stop > 0:
            c.cover("stop_in_flight")
    for i in taken:
        begun = sum(1 for e in ev if e[0] == "cb_begin" and e[1] == i)
        ended = sum(1 for e in ev if e[0] == "cb_end" and e[1] == i)
        runs = sum(1 for e in ev if e[0] == "task_start" and e[1] == i)
        c.check(begun == 1 and ended == 1, "taken_message_processed_exactly_once", msg=i, kind=kinds[i], begun=begun, ended=ended,
                taken=taken, A=r.A, P=r.P, N=r.N)
        want = 1 if kinds[i] == "valid" else 0
        if kinds[i] == "late_task":
            # known iff the task had been registered when this message's processing began
            reg = next((k for k, e in enumerate(ev) if e == ("env", "register_late")), None)
            beg = next((k for k, e in enumerate(ev) if e[0] == "cb_begin" and e[1] == i), None)
            want = 1 if (reg is not None and beg is not None and beg > reg) else 0
            c.cover("late_registration_" + ("known" if want else "unknown"))
        c.check(runs == want, "task_function_invoked_exactly_once_for_valid_messages", msg=i, kind=kinds[i], runs=runs, A=r.A, P=r.P, N=r.N)
    ghosts = [e for e in ev if e[0] in ("cb_begin", "task_start") and e[1] not in taken]
    c.check(not ghosts, "nothing_processed_that_was_not_taken", ghosts=ghosts)


def signature(f: Dict[str, Any]) -> str:
    return f["label"]
