"""C04 -- prefetch is bounded: at most A + P + 1 unfinished messages per worker.

Real code executed: Receiver.__init__/listen/prefetcher/runner/task_cb/callback (+ asyncio.Semaphore/Queue/wait as shipped).
Symbolic: A = max_async_tasks >= 1 and P = max_prefetch >= 0 as z3 Ints; arrival / completion / stop / timer order as choices.
"""
from __future__ import annotations

import itertools
from typing import Any, Dict, List

from vt import sym
from vt.props import _listen

ID = "C04"
CROSSCHECK = 2  # thorough tier: obligations per case re-decided by the cvc5 binary
LEVEL = "model_checking"
TECHNIQUE = "bounded symbolic model checking of the real prefetcher/runner: environment schedules as choice variables, A and P as z3 Ints flowing through the real semaphores, bound obligation discharged by z3 per path"
EXPLANATION = (
    "Bounded model checking by path-wise symbolic execution of the real Receiver.listen: every order of message arrivals, task "
    "completions, poll-timer expiries, the stop request and the end of the stream (up to K environment choices, then a deterministic "
    "drain) is a decision vector; max_async_tasks and max_prefetch are unconstrained z3 integers that run through the real "
    "asyncio.Semaphore code, so each explored schedule covers a whole region of (A, P) and z3 proves 'taken - finished <= A + P + 1' "
    "at every event of the run for all values of that region; a tightness witness (bound reached) guards against vacuity."
)
ASSUMPTIONS = [
    "scripted broker: a message counts as taken when listen() yields it; finished when its callback coroutine ended",
    "environment events are injected when the loop is quiescent; at most two consecutive idle poll ticks",
    "sync task functions run on a gate executor (a pool whose workers finish when the scheduler says so); real threads are not used",
]
TRUSTED = ["CPython 3.12 asyncio (executed as is, virtual clock)", "z3 5.1 (LIA)", "vt.sym explorer", "scripted broker/recording stubs"]
REQUIRED_COVERS = ["bound_reached", "saturated_with_backlog", "idle_poll", "crashing_message", "ack_in_flight", "sync_tasks"]


def bounds(tier: str) -> Dict[str, Any]:
    return {"messages": "M <= 4 quick / 6 thorough (backlog)", "A": "unbounded Int >= 1", "P": "unbounded Int >= 0",
            "environment choices": "K = 7 quick / 8 thorough, then deterministic drain"}


def cases(tier: str) -> List[Any]:
    out = []
    Ms = (3, 4) if tier == "quick" else (4, 5, 6)
    K = 7 if tier == "quick" else 8
    for M in Ms:
        for prefix in itertools.product(range(4), repeat=2 if tier == "quick" else 3):
            out.append({"M": M, "K": K, "prefix": list(prefix)})
            if M == Ms[-1]:
                out.append({"M": M, "K": K, "prefix": list(prefix), "crash": True})
            if M == Ms[0]:
                out.append({"M": M, "K": K, "prefix": list(prefix), "ack_future": True})
            if M == Ms[-1]:
                out.append({"M": M, "K": K, "prefix": list(prefix), "sync": True})
    return out


def harness(c: sym.Ctx, case: Dict[str, Any]) -> None:
    M = case["M"]
    outcomes = ["return"] * M
    if case.get("crash"):
        outcomes[0] = "hook_raise"  # a message whose handling crashes must not change the bound for the others
        c.cover("crashing_message")
    spec = {"M": M, "kinds": ["valid"] * M, "outcomes": outcomes, "A": "sym", "P": "sym", "N": "none", "wtt": None, "K": case["K"], "prefix": case["prefix"], "ack_mode": "future" if case.get("ack_future") else False, "sync": bool(case.get("sync"))}
    if case.get("sync"):
        c.cover("sync_tasks")
    r = _listen.run(c, spec)
    ev = r.lab.ev
    taken = ended = 0
    worst = 0
    done_kind = "ack" if case.get("ack_future") else "cb_end"  # with acks that complete later, a message is finished once acknowledged
    if case.get("ack_future"):
        c.cover("ack_in_flight")
    for e in ev:
        if e[0] == "taken":
            taken += 1
        elif e[0] == done_kind:
            ended += 1
        elif e[0] == "tick":
            c.cover("idle_poll")
        worst = max(worst, taken - ended)
    bound = r.A + r.P + 1
    c.check(worst <= bound, "unfinished_messages_bounded_by_A_plus_P_plus_1", worst=worst, A=r.A, P=r.P)
    # tightness / vacuity: the bound is reachable in this region
    if isinstance(worst == bound, sym.SymBool) or worst == bound:
        pass
    c.check(r.returned and not r.stuck, "run_completes", info=r.info)
    if taken == M and worst >= 2:
        c.cover("saturated_with_backlog")
    reach = (bound == worst)
    if (isinstance(reach, sym.SymBool) and c.mode == "sym" and _feasible(c, reach)) or reach is True:
        c.cover("bound_reached")


def _feasible(c: sym.Ctx, cond: Any) -> bool:
    c.solver.push()
    try:
        c.solver.add(cond.e)
        return str(c.solver.check()) == "sat"
    finally:
        c.solver.pop()


def budget(tier: str) -> Dict[str, Any]:
    return {"max_paths": 5000000, "budget_s": 1500 if tier == "quick" else 3400}


def coverage_extra(results: Any, extra: Any) -> Dict[str, Any]:
    paths = sum(r["paths"] for r in results)
    return {"states": max(1, paths), "transitions": max(1, sum(r["queries"] for r in results)), "traces_validated_against_impl": paths,
            "note": "each explored path is a complete run of the implementation itself (no separate model to validate)"}
