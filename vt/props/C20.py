"""C20 -- loading a stored error never instantiates anything but an exception class.

Real code executed: serialization.exception_to_python (through pydantic validate_call, as shipped), create_exception_cls,
subclass_exception, get_pickled_exception, TaskiqResult._validate_error.
Decision variables: module name (planted trap module / missing / None / unloaded submodule of a loaded package / builtins / os),
dotted type name (function, non-exception class, callable instance, module, exception classes, nested attribute paths, nothing),
argument tuple, nesting position (top level, cause, context, cause-of-cause), entry point, repetition of the same load.
"""
from __future__ import annotations

import builtins
import importlib
import os
import sys
import tempfile
import types
from typing import Any, Dict, List, Optional, Tuple

from vt import sym

ID = "C20"
LEVEL = "other"
TECHNIQUE = "exhaustive path exploration (symbolic choice variables) of the real exception_to_python over crafted payloads with recording trap objects and an import monitor"
EXPLANATION = (
    "Path-wise symbolic execution of the real exception_to_python / TaskiqResult validation: module name, dotted type name, arguments, "
    "nesting position in cause/context and load repetition are decision variables over a planted trap namespace (functions, "
    "non-exception classes, callable instances, modules, exception classes, nested holders, an unloaded submodule on disk); on every "
    "path no trap may be called or instantiated, no payload-named module may be imported, insecure names must raise SecurityError and "
    "unresolvable names must yield a synthetic exception class of that name."
)
ASSUMPTIONS = [
    "attribute lookup itself has no side effects (module-level __getattr__ that imports lazily is outside the claim)",
    "payload space is the planted namespace listed in bounds; names resolving to other kinds of object are not distinguished by the code",
]
TRUSTED = ["pydantic validate_call / model validation (executed)", "vt.sym explorer", "trap namespace in this file"]
BOUNDS = {"module names": 9, "type names": 34, "nesting depth": "<= 2 quick; <= 4 thorough (all cause/context paths of length 2, cause^3)", "loads per run": "<= 2"}
REQUIRED_COVERS = ["security_error", "exception_instance", "synthetic_class", "nested", "repeated", "via_result", "via_function", "constructor_fallback"]

CALLS: List[Any] = []
_PKG: Dict[str, str] = {}


class GoodExc(Exception):
    pass


class BaseOnlyExc(BaseException):
    pass


class WeirdExc(Exception):
    def __init__(self, a: Any, b: Any, c: Any) -> None:
        super().__init__(a, b, c)


class TrapCls:
    def __init__(self, *a: Any, **k: Any) -> None:
        CALLS.append(("TrapCls", a))


class _Callable:
    def __call__(self, *a: Any, **k: Any) -> Any:
        CALLS.append(("trap_instance", a))


def trap_fn(*a: Any, **k: Any) -> Any:
    CALLS.append(("trap_fn", a))


class Holder:
    class Inner(Exception):
        pass

    class NotExc:
        def __init__(self, *a: Any) -> None:
            CALLS.append(("Holder.NotExc", a))

    @staticmethod
    def fn(*a: Any) -> Any:
        CALLS.append(("Holder.fn", a))

    inst = _Callable()


def plant() -> None:
    if "vt_trapmod" in sys.modules:
        return
    m = types.ModuleType("vt_trapmod")
    sub = types.ModuleType("vt_trapmod.sub")
    sub.f = trap_fn  # type: ignore[attr-defined]
    sub.E = GoodExc  # type: ignore[attr-defined]
    for k, v in dict(trap_fn=trap_fn, TrapCls=TrapCls, trap_instance=_Callable(), GoodExc=GoodExc, BaseOnlyExc=BaseOnlyExc,
                     WeirdExc=WeirdExc, Holder=Holder, sub=sub).items():
        setattr(m, k, v)
    sys.modules["vt_trapmod"] = m
    # a package on disk whose submodule is NOT loaded; importing it has a visible side effect
    d = tempfile.mkdtemp(prefix="vtpkg_", dir=os.environ.get("VT_SCRATCH"))
    pkg = os.path.join(d, "vtpkgx")
    os.mkdir(pkg)
    with open(os.path.join(pkg, "__init__.py"), "w") as fh:
        fh.write("")
    with open(os.path.join(pkg, "errors.py"), "w") as fh:
        fh.write("import builtins\nbuiltins._vt_side_effect = getattr(builtins, '_vt_side_effect', 0) + 1\nclass Boom(Exception):\n    pass\n")
    # a package that is installed (importable) but dormant: neither it nor its sub-package has been imported
    dorm = os.path.join(d, "vtdormant")
    os.mkdir(dorm)
    os.mkdir(os.path.join(dorm, "inner"))
    for pth in (os.path.join(dorm, "__init__.py"), os.path.join(dorm, "inner", "__init__.py")):
        with open(pth, "w") as fh:
            fh.write("import builtins\nbuiltins._vt_side_effect = getattr(builtins, '_vt_side_effect', 0) + 1\n")
    with open(os.path.join(dorm, "inner", "errors.py"), "w") as fh:
        fh.write("class Boom(Exception):\n    pass\n")
    sys.path.insert(0, d)
    importlib.import_module("vtpkgx")
    _PKG["dir"] = d
    import atexit
    import shutil

    atexit.register(shutil.rmtree, d, True)


MODULES = [None, "vt_trapmod", "vt_missing_mod", "vtpkgx.errors", "builtins", "os", "vt_trapmod.sub", "taskiq", "vtdormant.inner.errors"]
TYPES = ["trap_fn", "TrapCls", "trap_instance", "sub", "GoodExc", "BaseOnlyExc", "WeirdExc", "Holder.Inner", "Holder.fn", "Holder.NotExc",
         "Holder.inst", "nothing", "Holder.nothing", "sub.f", "sub.E", "Boom", "system", "object", "ValueError", "eval", "f", "E",
         "api.run_receiver_task", "cli", "schedule_sources.LabelScheduleSource", "exceptions.SecurityError", "AsyncBroker",
         # names that exist in the namespaces the loader falls back to (taskiq.serialization / taskiq.exceptions)
         "safe_repr", "Any", "sys", "SecurityError", "subclass_exception", "ExceptionRepr", "Optional"]
ARGS: List[Tuple[Any, ...]] = [(), ("a",), ("x", 1)]


def cases(tier: str) -> List[Any]:
    out = []
    for mi in range(len(MODULES)):
        for nest in ("top", "cause", "context", "cause.cause", "context.cause", "cause.context", "cause.cause.cause") if tier == "thorough" else ("top", "cause", "context"):
            out.append({"module": mi, "nest": nest})
    return out


def warmup() -> None:
    plant()


def _resolve(module: Optional[str], name: str) -> Tuple[str, Any]:
    if module is None:
        return "synthetic", None
    if module not in sys.modules:
        return "synthetic", None
    import inspect

    obj: Any = sys.modules[module]
    for part in name.split("."):
        try:
            # static lookup: the oracle itself must not trigger lazy attribute hooks (module-level __getattr__)
            obj = inspect.getattr_static(obj, part)
            if isinstance(obj, (staticmethod, classmethod)):
                obj = obj.__func__
        except AttributeError:
            return "synthetic", None
    if isinstance(obj, type) and issubclass(obj, BaseException):
        return "exception", obj
    return "insecure", obj


def harness(c: sym.Ctx, case: Dict[str, Any]) -> None:
    from taskiq.exceptions import SecurityError

    plant()
    module = MODULES[case["module"]]
    tname = c.choose(TYPES, "type")
    args = ARGS[c.choose(len(ARGS), "args")]
    via = c.choose(["function", "result"], "via")
    repeat = c.flag("repeat")
    kind, obj = _resolve(module, tname)
    payload: Dict[str, Any] = {"exc_type": tname, "exc_module": module, "exc_message": list(args)}
    nest = case["nest"]
    if nest != "top":
        c.cover("nested")
        for key in reversed(nest.split(".")):
            payload = {"exc_type": "ValueError", "exc_module": "builtins", "exc_message": ["outer"], {"cause": "exc_cause", "context": "exc_context"}[key]: payload}
    c.cover("via_" + via)
    loaded_before = set(sys.modules)
    side_before = getattr(builtins, "_vt_side_effect", 0)
    imports: List[str] = []
    real_import, real_import_module = builtins.__import__, importlib.import_module

    def spy_import(name: str, *a: Any, **k: Any) -> Any:
        imports.append(name)
        return real_import(name, *a, **k)

    def spy_import_module(name: str, *a: Any, **k: Any) -> Any:
        imports.append(name)
        return real_import_module(name, *a, **k)

    results: List[Any] = []
    builtins.__import__ = spy_import
    importlib.import_module = spy_import_module  # type: ignore[assignment]
    try:
        for _ in range(2 if repeat else 1):
            del CALLS[:]
            try:
                if via == "function":
                    from taskiq.serialization import exception_to_python

                    res = ("ok", exception_to_python(dict(payload)))  # type: ignore[arg-type]
                else:
                    from taskiq.result import TaskiqResult

                    r = TaskiqResult.model_validate({"is_err": True, "return_value": None, "execution_time": 0.1, "error": payload})
                    res = ("ok", r.error)
            except SecurityError as exc:
                res = ("security", exc)
            except Exception as exc:  # noqa: BLE001
                res = ("other", exc)
            results.append((res, list(CALLS)))
    finally:
        builtins.__import__ = real_import
        importlib.import_module = real_import_module  # type: ignore[assignment]
    if repeat:
        c.cover("repeated")
    stem = (module or "").split(".")[0]
    bad_imports = [n for n in imports if module and (n == module or n.split(".")[0] == stem) and n not in loaded_before]
    newly = sorted(m for m in set(sys.modules) - loaded_before if module and m.split(".")[0] == stem)
    c.check(not bad_imports and not newly and getattr(builtins, "_vt_side_effect", 0) == side_before, "no_import_of_unloaded_module",
            imports=bad_imports, newly_loaded=newly, payload=payload)
    for m in newly:
        sys.modules.pop(m, None)
    for n, ((status, val), calls) in enumerate(results):
        c.check(not calls, "no_trap_called_or_instantiated", calls=calls, payload=payload, load=n)
        inner = val
        if status == "ok":
            for key in ([] if nest == "top" else nest.split(".")):
                inner = getattr(inner, "__cause__" if key == "cause" else "__context__", None)
        if kind == "insecure":
            c.cover("security_error")
            c.check(status == "security", "non_exception_name_raises_security_error", status=status, value=val, payload=payload, load=n)
        elif kind == "exception":
            c.cover("exception_instance")
            ok = status == "ok" and isinstance(inner, BaseException)
            if ok and type(inner) is not obj:
                ok = type(inner) is Exception  # documented fallback when cls(*args) raises
                c.cover("constructor_fallback")
            c.check(ok, "exception_class_yields_exception_instance", status=status, value=inner, payload=payload, load=n)
        else:
            c.cover("synthetic_class")
            ok = status == "ok" and isinstance(inner, Exception) and type(inner).__name__ == tname and tuple(inner.args) == tuple(args)
            c.check(ok, "unresolved_name_yields_synthetic_exception_class", status=status, value=inner, tname=tname, payload=payload, load=n)
        if status == "ok" and nest != "top":
            c.check(isinstance(val, ValueError), "outer_exception_restored", value=val)
