"""Scenario runner for Receiver.callback / run_task (used by C02, C07, C10, C12, C03-summary).

`run(c, spec)` executes the real `Receiver.callback` for one or two concurrent messages in a Lab.
Every dimension of `spec` that is not fixed by the caller is chosen through `c.choose`, so it is
part of the explored decision vector."""
from __future__ import annotations

import asyncio
from typing import Any, Dict, List, Optional

from vt import sym
from vt.props._recv import BaseOnly, InlineExecutor, Lab, ackable, encode, make_broker, make_middleware

OUTCOMES = ("return", "raise_exc", "raise_base", "no_result", "cancelled", "timeout")
EXTRA_OUTCOMES = ("raise_system_exit", "timeout0")  # used by C07 only; timeout0: a timeout label of 0 on a task that never finishes
ACKS = ("when_received", "when_executed", "when_saved")


class DepFail(Exception):
    pass


def pick(c: sym.Ctx, spec: Dict[str, Any], key: str, options: Any) -> Any:
    if key in spec:
        return spec[key]
    v = c.choose(list(options), key)
    spec[key] = v
    return v


def run(c: sym.Ctx, spec: Dict[str, Any], n_msgs: int = 1) -> Lab:
    """spec keys (all optional, chosen if absent): ack, async_ack, target ('async'|'sync'), outcome[i],
    timeout_label[i], backend_fail[i], mws (list of dict hook->kind), replace, deps ('none'|'gen'|...),
    propagate, validate, raising_hook"""
    from taskiq import TaskiqDepends
    from taskiq.acks import AcknowledgeType
    from taskiq.exceptions import NoResultError
    from taskiq.receiver import Receiver

    lab = Lab(c)
    ack = pick(c, spec, "ack", ACKS)
    async_ack = pick(c, spec, "async_ack", (False, True))
    target_kind = pick(c, spec, "target", ("async", "sync"))
    outcomes = [pick(c, spec, f"outcome{i}", spec.get("outcome_choices", OUTCOMES) if target_kind == "async" else OUTCOMES[:5]) for i in range(n_msgs)]
    tl = [outcomes[i] in ("timeout", "timeout0", "timeout_cleanup") or pick(c, spec, f"timeout_label{i}", (False, True)) for i in range(n_msgs)]
    bfail = [pick(c, spec, f"backend_fail{i}", (False, True)) for i in range(n_msgs)]
    deps = spec.get("deps", "none")
    propagate = spec.get("propagate", True)
    same_id = bool(spec.get("same_id"))

    def tid_of(i: int) -> str:
        return "id0" if same_id else f"id{i}"

    failing = {tid_of(i) for i in range(n_msgs) if bfail[i]}
    broker = make_broker(lab, backend_fail=lambda tid: tid in failing, backend_gate=spec.get("backend_gate", n_msgs > 1))
    late_from = spec.get("late_from")  # middlewares from this index on are registered after a first message was processed
    all_mws: List[Any] = []
    for k, hooks in enumerate(spec.get("mws", [])):
        # spec["inherit"]: middleware k's class derives from middleware k-1's class (hooks inherited from an intermediate base)
        all_mws.append(make_middleware(lab, k, hooks, replace_message=spec.get("replace", False),
                                       raising=spec.get("raising_hook") if k == spec.get("raising_mw", 0) else None,
                                       base=all_mws[-1] if (spec.get("inherit") and all_mws) else None))
    for k, mw in enumerate(all_mws):
        if late_from is None or k < late_from:
            broker.add_middlewares(mw)

    def outcome_of(i: int) -> str:
        return outcomes[i]

    async def hang(i: int) -> None:
        try:
            await lab.gate(f"hang:{i}")  # never opened: only the timer can end it
        except asyncio.CancelledError:
            if outcome_of(i) == "timeout_cleanup":
                # the function's own clean-up after the cancellation takes a while (the scheduler decides how long)
                lab.rec("cleanup_begin", i)
                await lab.gate(f"cleanup:{i}")
            raise

    def finish(i: int) -> Any:
        o = outcome_of(i)
        if o == "return":
            return ("value", i)
        if o == "raise_exc":
            raise ValueError(f"boom{i}")
        if o == "raise_base":
            raise BaseOnly(f"base{i}")
        if o == "no_result":
            raise NoResultError()
        if o == "cancelled":
            raise asyncio.CancelledError()
        if o == "raise_system_exit":
            raise SystemExit(3)
        raise AssertionError(o)

    # ---- dependencies (C12)
    def dep_gen(name: str, fail_open: bool = False) -> Any:
        def gen() -> Any:
            lab.rec("dep_open", name)
            if fail_open:
                raise DepFail(name)
            try:
                yield name
            except BaseException as exc:  # noqa: BLE001
                lab.rec("dep_exc", name, type(exc).__name__)
                raise
            finally:
                lab.rec("dep_close", name)

        gen.__name__ = f"dep_{name}"
        return gen

    def dep_agen(name: str) -> Any:
        async def agen() -> Any:
            lab.rec("dep_open", name)
            try:
                yield name
            except BaseException as exc:  # noqa: BLE001
                lab.rec("dep_exc", name, type(exc).__name__)
                raise
            finally:
                lab.rec("dep_close", name)

        agen.__name__ = f"dep_{name}"
        return agen

    if deps == "none":
        if target_kind == "async":
            async def target(i: int) -> Any:
                lab.rec("task_start", i)
                try:
                    if outcome_of(i) in ("timeout", "timeout0", "timeout_cleanup"):
                        await hang(i)  # never opened: only the timer can end it
                        return ("late", i)
                    if spec.get("task_gate", n_msgs > 1):
                        await lab.gate(f"task:{i}")
                    return finish(i)
                finally:
                    lab.rec("task_end", i)
        else:
            def target(i: int) -> Any:  # type: ignore[misc]
                lab.rec("task_start", i)
                try:
                    return finish(i)
                finally:
                    lab.rec("task_end", i)
    else:
        d_a = dep_gen("a")
        d_b = dep_agen("b")
        d_f = dep_gen("f", fail_open=True)

        if deps == "gen":
            async def target(i: int, a: str = TaskiqDepends(d_a)) -> Any:  # type: ignore[misc]
                lab.rec("task_start", i)
                try:
                    if outcome_of(i) in ("timeout", "timeout_cleanup"):
                        await hang(i)
                    return finish(i)
                finally:
                    lab.rec("task_end", i)
        elif deps == "gen_agen":
            async def target(i: int, a: str = TaskiqDepends(d_a), b: str = TaskiqDepends(d_b)) -> Any:  # type: ignore[misc]
                lab.rec("task_start", i)
                try:
                    if outcome_of(i) in ("timeout", "timeout_cleanup"):
                        await hang(i)
                    return finish(i)
                finally:
                    lab.rec("task_end", i)
        elif deps == "nocache":
            d_c = dep_gen("c")

            def d_d(cc: str = TaskiqDepends(d_c, use_cache=False)) -> Any:
                lab.rec("dep_open", "d")
                try:
                    yield "d"
                except BaseException as exc:  # noqa: BLE001
                    lab.rec("dep_exc", "d", type(exc).__name__)
                    raise
                finally:
                    lab.rec("dep_close", "d")

            d_e = dep_gen("e")

            async def target(i: int, d: str = TaskiqDepends(d_d, use_cache=False), e: str = TaskiqDepends(d_e, use_cache=False)) -> Any:  # type: ignore[misc]
                lab.rec("task_start", i)
                try:
                    if outcome_of(i) in ("timeout", "timeout_cleanup"):
                        await hang(i)
                    return finish(i)
                finally:
                    lab.rec("task_end", i)
        elif deps == "cm_acm":
            import contextlib

            @contextlib.contextmanager
            def d_cm() -> Any:
                lab.rec("dep_open", "m")
                try:
                    yield "m"
                except BaseException as exc:  # noqa: BLE001
                    lab.rec("dep_exc", "m", type(exc).__name__)
                    raise
                finally:
                    lab.rec("dep_close", "m")

            @contextlib.asynccontextmanager
            async def d_acm() -> Any:
                lab.rec("dep_open", "n")
                try:
                    yield "n"
                except BaseException as exc:  # noqa: BLE001
                    lab.rec("dep_exc", "n", type(exc).__name__)
                    raise
                finally:
                    lab.rec("dep_close", "n")

            async def target(i: int, m: str = TaskiqDepends(d_cm), nn: str = TaskiqDepends(d_acm), a: str = TaskiqDepends(d_a)) -> Any:  # type: ignore[misc]
                lab.rec("task_start", i)
                try:
                    if outcome_of(i) in ("timeout", "timeout_cleanup"):
                        await hang(i)
                    return finish(i)
                finally:
                    lab.rec("task_end", i)
        elif deps == "behind_plain_nocache":
            def d_p(a: str = TaskiqDepends(d_a)) -> str:  # no teardown of its own
                return "p:" + a

            async def target(i: int, p: str = TaskiqDepends(d_p, use_cache=False)) -> Any:  # type: ignore[misc]
                lab.rec("task_start", i)
                try:
                    if outcome_of(i) in ("timeout", "timeout_cleanup"):
                        await hang(i)
                    return finish(i)
                finally:
                    lab.rec("task_end", i)
        elif deps == "chain3":
            def d_x() -> Any:
                lab.rec("dep_open", "x")
                try:
                    yield "x"
                except BaseException as exc:  # noqa: BLE001
                    lab.rec("dep_exc", "x", type(exc).__name__)
                    raise
                finally:
                    lab.rec("dep_close", "x")

            async def d_y(x: str = TaskiqDepends(d_x)) -> Any:
                lab.rec("dep_open", "y")
                try:
                    yield "y"
                except BaseException as exc:  # noqa: BLE001
                    lab.rec("dep_exc", "y", type(exc).__name__)
                    raise
                finally:
                    lab.rec("dep_close", "y")

            def d_z(y: str = TaskiqDepends(d_y), x: str = TaskiqDepends(d_x)) -> Any:
                lab.rec("dep_open", "z")
                try:
                    yield "z"
                except BaseException as exc:  # noqa: BLE001
                    lab.rec("dep_exc", "z", type(exc).__name__)
                    raise
                finally:
                    lab.rec("dep_close", "z")

            async def target(i: int, z: str = TaskiqDepends(d_z)) -> Any:  # type: ignore[misc]
                lab.rec("task_start", i)
                try:
                    if outcome_of(i) in ("timeout", "timeout_cleanup"):
                        await hang(i)
                    return finish(i)
                finally:
                    lab.rec("task_end", i)
        elif deps == "fail":
            async def target(i: int, a: str = TaskiqDepends(d_a), f: str = TaskiqDepends(d_f)) -> Any:  # type: ignore[misc]
                lab.rec("task_start", i)
                try:
                    return finish(i)
                finally:
                    lab.rec("task_end", i)
        else:
            raise sym.HarnessError(f"unknown deps {deps}")

    broker.register_task(target, task_name="t")
    recv = Receiver(
        broker, executor=InlineExecutor(), validate_params=spec.get("validate", True),
        max_async_tasks=None, propagate_exceptions=propagate, run_startup=False,
        ack_type=AcknowledgeType(ack),
    )
    lab.receiver = recv  # type: ignore[attr-defined]
    lab.broker = broker  # type: ignore[attr-defined]
    lab.spec = spec  # type: ignore[attr-defined]
    msgs = []
    for i in range(n_msgs):
        labels: Dict[str, Any] = {"user": f"L{i}"}
        if tl[i]:
            labels["timeout"] = 0 if outcomes[i] == "timeout0" else 5
        # type information only for some labels (as when a pre_send middleware or a foreign producer added the others)
        data = encode(broker, "t", tid_of(i), [i], labels, labels_types={"user": 3} if spec.get("partial_types", True) else None)
        msgs.append(ackable(lab, i, data, async_ack, gate_ack=n_msgs > 1 or bool(spec.get("crash"))) if spec.get("ackable", True) else data)

    async def warm_target() -> None:
        return None

    if late_from is not None:
        broker.register_task(warm_target, task_name="warm")

    async def main() -> None:
        if late_from is not None:
            # the worker has already processed a message when the remaining middlewares are added
            await recv.callback(message=encode(broker, "warm", "warm", [], {}), raise_err=False)
            for mw in all_mws[late_from:]:
                broker.add_middlewares(mw)
            del lab.ev[:]
            del lab.ev_t[:]
        tasks = [asyncio.ensure_future(recv.callback(message=m, raise_err=False)) for m in msgs]
        if spec.get("crash"):
            # the worker dies / the processing of message 0 is cancelled at a suspension point the scheduler chooses
            lab.env["crash"] = tasks[0].cancel
        res = await asyncio.gather(*tasks, return_exceptions=True)
        for i, r in enumerate(res):
            lab.rec("cb_done", i, None if not isinstance(r, BaseException) else type(r).__name__)

    mt = lab.loop.create_task(main())
    try:
        try:
            lab.drive(mt)
        except (SystemExit, KeyboardInterrupt, GeneratorExit) as exc:
            # an exception class that asyncio re-raises through the event loop: the worker's loop would be torn down
            lab.rec("loop_aborted", type(exc).__name__)
    finally:
        lab.main_done = mt.done()  # type: ignore[attr-defined]
        lab.close()
    return lab
