"""C03 -- the concurrency limit is respected and execution slots are never leaked.

Real code executed: Receiver.__init__/listen/prefetcher/runner/task_cb/callback/run_task.  Symbolic: A (z3 Int >= 1);
choices: per message outcome (return, raise, failing backend, raising pre_execute hook, malformed, unknown task), schedule.
"""
from __future__ import annotations

import itertools
from typing import Any, Dict, List

from vt import sym
from vt.props import C04, _listen

ID = "C03"
LEVEL = "model_checking"
TECHNIQUE = "bounded symbolic model checking of the real runner/task_cb: schedules and per-message outcomes as choice variables, A as z3 Int through the real semaphore, 'live <= A' and permit-return obligations discharged by z3"
EXPLANATION = (
    "Bounded model checking by path-wise symbolic execution of the real Receiver.listen: arrival/completion/timer/stop order and the "
    "outcome of every message (success, exception, failing result backend, raising middleware hook, malformed payload, unknown task) "
    "are decision variables, max_async_tasks is an unconstrained z3 Int >= 1 flowing through the real asyncio.Semaphore; on each path z3 "
    "proves 'callbacks alive <= A' at every event for the whole region of A, that for A = 1 processing is sequential in delivery order, "
    "and that after the history every permit is back and every taken message was processed (no leaked slot, progress)."
)
ASSUMPTIONS = list(C04.ASSUMPTIONS)
TRUSTED = C04.TRUSTED
REQUIRED_COVERS = ["limit_reached", "sequential_A1", "hook_raise", "backend_fail", "skipped_message", "raise", "timeout", "timeout_cleanup", "backend_cancelled", "timeout_zero"]
budget = C04.budget
coverage_extra = C04.coverage_extra

PER_MSG = ("return", "raise", "backend_fail", "hook_raise", "malformed", "unknown", "timeout", "timeout_cleanup", "empty", "empty_raw", "backend_cancelled", "timeout_zero")


def bounds(tier: str) -> Dict[str, Any]:
    return {"messages": "M = 3 quick / 4 thorough", "A": "unbounded Int >= 1", "P": "0 (all outcome kinds) and 1 (quick: three kinds; thorough: all)",
            "environment choices": "K = 6 quick / 7 thorough, then deterministic drain", "outcome kinds per message": len(PER_MSG)}


def cases(tier: str) -> List[Any]:
    out = []
    M = 3 if tier == "quick" else 4
    K = 6 if tier == "quick" else 7
    depth = 2 if tier == "quick" else 3
    for first in PER_MSG:
        for prefix in itertools.product(range(3), repeat=depth):
            for P in (0, 1):
                if P == 1 and tier == "quick" and first not in ("return", "hook_raise", "timeout"):
                    continue
                out.append({"M": M, "K": K, "first": first, "prefix": list(prefix), "P": P})
    return out


def harness(c: sym.Ctx, case: Dict[str, Any]) -> None:
    M = case["M"]
    per = [case["first"]] + [c.choose(("return", "raise", "backend_fail", "hook_raise", "unknown", "timeout", "empty_raw", "backend_cancelled") if k == 1 else ("return", "hook_raise"), f"outcome{k}") for k in range(1, M)]
    skip = ("malformed", "unknown", "empty", "empty_raw")
    kinds = [p if p in skip else "valid" for p in per]
    outcomes = [p if p not in skip else "return" for p in per]
    for p in per:
        if p in ("hook_raise", "backend_fail", "raise", "timeout", "timeout_cleanup", "backend_cancelled", "timeout_zero"):
            c.cover(p)
        if p in ("malformed", "unknown", "empty", "empty_raw"):
            c.cover("skipped_message")
    spec = {"M": M, "kinds": kinds, "outcomes": outcomes, "A": "sym", "P": case["P"], "N": "none", "wtt": None, "K": case["K"], "prefix": case["prefix"]}
    state: Dict[str, Any] = {"samples": [], "seen": set()}

    def on_step(run: Any) -> None:
        sem = getattr(run.lab, "exec_sem", None)
        if sem is None or not hasattr(sem, "_value"):
            return
        begun = sum(1 for e in run.lab.ev if e[0] == "cb_begin")
        ended_ = sum(1 for e in run.lab.ev if e[0] == "cb_end")
        v = sem._value
        key = (str(v.e) if isinstance(v, sym.SymInt) else v, begun - ended_)
        if key not in state["seen"]:
            state["seen"].add(key)
            state["samples"].append((sem._value, begun - ended_))

    r = _listen.run(c, spec, on_step=on_step)
    ev = r.lab.ev
    live = worst = bodies = worst_bodies = 0
    order: List[int] = []
    overlap = False
    for e in ev:
        if e[0] == "task_start":
            bodies += 1
            worst_bodies = max(worst_bodies, bodies)
        elif e[0] == "task_end":
            bodies -= 1
        if e[0] == "cb_begin":
            live += 1
            order.append(e[1])
            if live > 1:
                overlap = True
        elif e[0] == "cb_end":
            live -= 1
        worst = max(worst, live)
    c.check(worst <= r.A, "concurrently_processed_messages_never_exceed_limit", worst=worst, A=r.A)
    c.check(worst_bodies <= r.A, "concurrently_running_task_functions_never_exceed_limit", worst=worst_bodies, A=r.A, outcomes=per)
    if C04._feasible(c, worst == r.A) if isinstance(worst == r.A, sym.SymBool) else worst == r.A:
        c.cover("limit_reached")
    taken = [e[1] for e in ev if e[0] == "taken"]
    if bool(r.A == 1):
        c.cover("sequential_A1")
        c.check(not overlap and order == taken[: len(order)], "limit_one_processes_one_at_a_time_in_delivery_order", order=order, taken=taken)
    c.check(r.returned and not r.stuck, "worker_keeps_making_progress_and_stops", info=r.info, outcomes=per)
    ended = sorted(e[1] for e in ev if e[0] == "cb_end")
    c.check(ended == sorted(taken), "every_taken_message_processed", taken=taken, ended=ended, outcomes=per)
    # permit conservation: free permits + live callbacks + (the one slot the runner itself may hold) == A, so a leaked slot shows as
    # free + live < A - 1; checked at every quiescent point of the run and at its end
    if state["samples"]:
        c.cover("permit_samples")
    for free, live_now in state["samples"]:
        c.check(free + live_now >= r.A - 1, "no_execution_slot_leaked", free=free, live=live_now, A=r.A, outcomes=per)
        c.check(free + live_now <= r.A, "no_execution_slot_invented", free=free, live=live_now, A=r.A, outcomes=per)
