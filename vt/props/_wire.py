"""Symbolic 'wire' world for label / kicker / retry properties (C09, C11, C16).

sym mode : taskiq.labels, taskiq.message, taskiq.kicker, taskiq.middlewares.retry_middleware,
           taskiq.context, taskiq.decor are re-executed from source with models of int/str/float/bool/
           type/isinstance/base64 so that SymInt / SymBool / opaque values can flow through them; the
           broker's formatter is a stub implementing the coder axiom "the wire preserves JSON values"
           (it deep-copies the message; the real ProxyFormatter+JSON serializer are C code territory).
concrete : the real modules, the real ProxyFormatter and JSON serializer.
"""
from __future__ import annotations

import copy
import types
from typing import Any, Dict, Optional

from vt import models
from vt.world import World

_W: Optional[types.SimpleNamespace] = None


def sym_world() -> types.SimpleNamespace:
    global _W
    if _W is None:
        w = World()
        pre = dict(models.BUILTIN_MODELS)
        labels = w.clone("taskiq.labels", pre=pre, post={"base64": models.base64_model})
        message = w.clone("taskiq.message")  # no builtin models: pydantic reads its annotations
        kicker = w.clone("taskiq.kicker")
        retry = w.clone("taskiq.middlewares.retry_middleware", pre=pre)
        context = w.clone("taskiq.context", pre=pre)
        decor = w.clone("taskiq.decor")
        _W = types.SimpleNamespace(world=w, labels=labels, message=message, kicker=kicker, retry=retry, context=context, decor=decor)
    return _W


def real_world() -> types.SimpleNamespace:
    import taskiq.context as context
    import taskiq.decor as decor
    import taskiq.kicker as kicker
    import taskiq.labels as labels
    import taskiq.message as message
    import taskiq.middlewares.retry_middleware as retry

    return types.SimpleNamespace(labels=labels, message=message, kicker=kicker, retry=retry, context=context, decor=decor)


def world(mode: str) -> types.SimpleNamespace:
    return sym_world() if mode == "sym" else real_world()


class Wire:
    """what a broker receives from formatter.dumps in sym mode (stands for BrokerMessage)"""

    def __init__(self, task_id: str, task_name: str, message: Any, labels: Dict[str, Any]) -> None:
        self.task_id = task_id
        self.task_name = task_name
        self.message = message
        self.labels = labels


class StubFormatter:
    """dumps/loads are inverse and preserve values (axiom); every loads() yields a fresh object."""

    def __init__(self, message_cls: Any) -> None:
        self.message_cls = message_cls
        self.table: Dict[bytes, Any] = {}

    def dumps(self, message: Any) -> Wire:
        token = b"wire-%d" % len(self.table)
        self.table[token] = self._copy(message)
        return Wire(message.task_id, message.task_name, token, message.labels)

    def _copy(self, m: Any) -> Any:
        return self.message_cls(
            task_id=m.task_id, task_name=m.task_name, labels=dict(m.labels),
            labels_types=None if m.labels_types is None else dict(m.labels_types),
            args=copy.copy(list(m.args)), kwargs=dict(m.kwargs),
        )

    def loads(self, message: bytes) -> Any:
        return self._copy(self.table[message])


def install_formatter(broker: Any, mode: str) -> None:
    if mode == "sym":
        broker.formatter = StubFormatter(sym_world().message.TaskiqMessage)
