"""C17 -- the process manager keeps exactly one live worker per slot.

Real code executed (re-executed from source with fake multiprocessing/os/signal/sleep): ProcessManager.__init__/prepare_workers/start,
ReloadAllAction.handle, ReloadOneAction.handle, _wait_for_worker_startup, get_signal_handler, schedule_workers_reload.
Decision variables: per tick and worker 'dies', per tick one of 8 signal/file-change combinations, whether a bounded join sees the old
process exit; max_fails is a z3 Int.
"""
from __future__ import annotations

from typing import Any, Dict, List

from vt import sym
from vt.props import _pm

ID = "C17"
LEVEL = "model_checking"
TECHNIQUE = "bounded exhaustive exploration of event histories (symbolic choice variables, max_fails as z3 Int) of the real ProcessManager.start with fake processes"
EXPLANATION = (
    "Bounded model checking of the real supervision loop by path-wise symbolic execution: every history of worker deaths, SIGHUP, "
    "SIGINT/SIGTERM and file-change events up to the tick bound is a decision vector, max_fails is an unconstrained z3 integer (the "
    "solver splits the paths on the budget comparisons), and after every event the slot invariants are checked: no two live processes "
    "per slot, old process terminated and joined before its replacement starts, slot count constant, dead workers replaced within two ticks."
)
ASSUMPTIONS = [
    "multiprocessing.Queue.empty() is exact (feeder-thread lag of the real queue is outside)",
    "environment events happen at tick boundaries (sleep), for slow exits inside a bounded join, and (early cases) once right after a replacement was started",
    "signals are delivered through the handlers the manager registered",
    "a process the manager sent SIGTERM (terminate()) without waiting for it exits on its own before the next tick",
]
TRUSTED = ["fake Process/Queue/Event/os/signal in vt/props/_pm.py", "z3 5.1", "vt.sym explorer"]
REQUIRED_COVERS = ["death_replaced", "reload_all", "shutdown", "budget_exit", "two_deaths_same_tick"]


def bounds(tier: str) -> Dict[str, Any]:
    return {"workers": "1..3", "ticks": "quick: 4 (W<=2), 3 (W=3); thorough: 6 (W=1), 5 (W=2), 3 (W=3); early-death cases 5 (W=1), 4 (W=2)", "max_fails": "unbounded Int"}


def cases(tier: str) -> List[Any]:
    out = []
    if tier == "quick":
        for w, d in ((1, 4), (2, 4), (3, 3)):
            for first in range(len(_pm.SIGNAL_OPTS)):
                out.append({"workers": w, "depth": d, "first": first})
        for first in range(len(_pm.SIGNAL_OPTS)):
            out.append({"workers": 2, "depth": 3, "first": first, "early": True})
    else:
        for w, d in ((1, 6), (2, 5), (3, 3)):
            for first in range(len(_pm.SIGNAL_OPTS)):
                out.append({"workers": w, "depth": d, "first": first})
        for w, d in ((1, 5), (2, 4)):
            for first in range(len(_pm.SIGNAL_OPTS)):
                out.append({"workers": w, "depth": d, "first": first, "early": True})
    return out


def explore_one(c: sym.Ctx, case: Dict[str, Any]) -> Any:
    mf = c.int("max_fails")
    return _pm.run(c, case["workers"], case["depth"], mf, first=case.get("first"), early_death=bool(case.get("early"))), mf


def harness(c: sym.Ctx, case: Dict[str, Any]) -> None:
    tr, mf = explore_one(c, case)
    check(c, tr, case)
    if tr.returned == -1:
        # giving up (and leaving dead slots unreplaced) is only allowed once the failure budget is really exhausted
        c.check((mf >= 1) & (mf <= tr.fail_actions), "gives_up_only_with_exhausted_failure_budget", handled=tr.fail_actions)


def check(c: sym.Ctx, tr: Any, case: Dict[str, Any]) -> None:
    W = case["workers"]
    c.check(len(tr.manager.workers) == W, "slot_count_constant", n=len(tr.manager.workers))
    # replay the trace
    alive: Dict[int, bool] = {}      # pid -> alive
    slot_of: Dict[int, int] = {}
    terminated: Dict[int, bool] = {}
    joined: Dict[int, bool] = {}
    death_tick: Dict[int, int] = {}   # slot -> tick of the unhandled death
    shutdown = False
    deaths_this_tick = 0
    for e in tr.ev:
        t, kind = e[0], e[1]
        if kind == "tick":
            deaths_this_tick = 0
            # replaced within two supervision ticks
            for slot, d in list(death_tick.items()):
                if t - d >= 2 and not shutdown:
                    c.check(False, "dead_worker_replaced_within_two_ticks", slot=slot, died_at=d, now=t)
                    del death_tick[slot]
        elif kind == "start":
            slot, pid = e[2], e[3]
            others = [p for p, a in alive.items() if a and slot_of[p] == slot]
            c.check(not others, "never_two_live_processes_per_slot", slot=slot, new=pid, live=others)
            prev = [p for p in slot_of if slot_of[p] == slot]
            if prev:
                last = prev[-1]
                c.check(terminated.get(last, False) and joined.get(last, False), "old_process_terminated_and_joined_before_replacement",
                        slot=slot, old=last, terminated=terminated.get(last), joined=joined.get(last))
            alive[pid] = True
            slot_of[pid] = slot
            c.check(0 <= slot < W, "replacement_in_existing_slot", slot=slot)
            if slot in death_tick:
                c.cover("death_replaced")
                del death_tick[slot]
        elif kind == "terminate":
            terminated[e[3]] = True
        elif kind == "join":
            if e[4] is None:
                joined[e[3]] = True
                alive[e[3]] = False
        elif kind == "join_timed_out":
            pass
        elif kind == "join_would_block_forever":
            c.check(False, "join_without_terminate_blocks", slot=e[2])
        elif kind == "env" and e[2] == "death":
            alive[e[4]] = False
            death_tick.setdefault(e[3], t)
            deaths_this_tick += 1
            if deaths_this_tick == 2:
                c.cover("two_deaths_same_tick")
        elif kind == "env" and e[2] == "signal" and e[3] in ("term", "int"):
            shutdown = True
            c.cover("shutdown")
        elif kind == "env" and (e[2] == "file_change" or (e[2] == "signal" and e[3] == "hup")):
            c.cover("reload_all")
        elif kind == "returned":
            if e[2] == -1:
                c.cover("budget_exit")
            death_tick.clear()
    # processes for which join(timeout) timed out stay alive: recompute from the fake objects
    for slot in range(W):
        live = [p.pid for p in _pm.slot_procs(tr, slot) if p.alive]
        c.check(len(live) <= 1, "never_two_live_processes_per_slot", slot=slot, live=live, at="end")


def budget(tier: str) -> Dict[str, Any]:
    return {"max_paths": 3000000, "budget_s": 900 if tier == "quick" else 3300}


def coverage_extra(results: Any, extra: Any) -> Dict[str, Any]:
    paths = sum(r["paths"] for r in results)
    return {"states": max(1, paths), "transitions": max(1, sum(r["obligations"] for r in results)), "traces_validated_against_impl": paths,
            "note": "states = complete event histories explored on the real code (each is a run of the implementation itself); transitions = obligations evaluated along them"}
