"""Listen laboratory (C01, C03, C04, C05): the real Receiver.listen / prefetcher / runner / callback on the virtual-time
loop.  Environment = message arrivals, task completions (with outcome), the stop request, end of stream, timer expiry; each is a
choice of the explorer at every quiescent point of the loop.  max_async_tasks (A), max_prefetch (P) and max_tasks_to_execute (N)
are z3 Ints that flow through the real asyncio.Semaphore arithmetic; the solver splits paths on their comparisons and decides
the counting obligations (live <= A, unfinished <= A + P + 1, taken == N ...) for all values of each region at once.

After the explored prefix (<= K environment choices) every run is completed deterministically ("drain": request stop, let every
message arrive/finish in order, advance timers) so that end-of-run obligations (exactly once, drained, returned) are evaluated
on complete executions.
"""
from __future__ import annotations

import asyncio
from typing import Any, Dict, List, Optional

from vt import sym
from vt.props._recv import InlineExecutor, Lab, ackable, encode, make_broker

KINDS = ("valid", "malformed", "unknown", "malformed_raw", "empty", "empty_raw", "late_task")
OUTCOMES = ("return", "raise", "backend_fail", "hook_raise", "never", "timeout", "timeout_cleanup", "backend_cancelled", "timeout_zero")


class Run:
    """Everything observed in one execution."""

    def __init__(self) -> None:
        self.lab: Lab = None  # type: ignore[assignment]
        self.A: Any = None
        self.P: Any = None
        self.N: Any = None
        self.wtt: Optional[float] = None
        self.kinds: List[str] = []
        self.outcomes: List[str] = []
        self.returned = False
        self.stuck = False
        self.stop_at: Optional[int] = None  # index in lab.ev
        self.info: Dict[str, Any] = {}


def run(c: sym.Ctx, spec: Dict[str, Any], on_step: Any = None) -> Run:
    """spec: M, kinds[M], outcomes[M], A ('none' | 'sym' | int), P ('sym' | int), N ('none' | 'sym' | int), wtt (None | float),
    K (explored choices), ackable (bool), stream_end (bool: the stream may end after the last message)"""
    from taskiq.abc.middleware import TaskiqMiddleware
    from taskiq.receiver import Receiver

    r = Run()
    lab = Lab(c)
    r.lab = lab
    M = spec["M"]
    r.kinds = list(spec["kinds"])
    r.outcomes = list(spec["outcomes"])
    if spec["A"] == "sym":
        A: Any = c.int("A", 1)
    elif spec["A"] == "any":
        A = c.int("A")  # every integer: values <= 0 mean "unlimited" for the receiver
    else:
        A = None if spec["A"] == "none" else spec["A"]
    P = c.int("P", 0) if spec["P"] == "sym" else spec["P"]
    N = c.int("N", 0) if spec["N"] == "sym0" else (c.int("N", 1) if spec["N"] == "sym" else (None if spec["N"] == "none" else spec["N"]))
    r.A, r.P, r.N, r.wtt = A, P, N, spec.get("wtt")
    failing_ids = {f"id{i}" for i in range(M) if r.outcomes[i] == "backend_fail"}
    cancelled_ids = {f"id{i}" for i in range(M) if r.outcomes[i] == "backend_cancelled"}
    broker = make_broker(lab, backend_fail=lambda tid: tid in failing_ids)
    if cancelled_ids:
        real_set = broker.result_backend.set_result

        async def set_result(task_id: str, result: Any) -> None:
            if task_id in cancelled_ids:
                # the backend's connection future was cancelled: a CancelledError (not an Exception) comes out of the save
                lab.rec("set_result", "cancelled", task_id)
                raise asyncio.CancelledError()
            await real_set(task_id, result)

        broker.result_backend.set_result = set_result  # type: ignore[method-assign]

    class HookMw(TaskiqMiddleware):
        def pre_execute(self, message: Any) -> Any:
            if message.labels.get("hook_raise"):
                lab.rec("hook_raise", message.task_id)
                raise RuntimeError("pre_execute failed")
            return message

    if "hook_raise" in r.outcomes:
        broker.add_middlewares(HookMw())

    async def target(i: int) -> Any:
        lab.rec("task_start", i)
        try:
            if r.outcomes[i] in ("never", "timeout", "timeout_cleanup", "timeout_zero"):
                try:
                    await lab.gate(f"hang:{i}")
                except asyncio.CancelledError:
                    if r.outcomes[i] == "timeout_cleanup":
                        lab.rec("cleanup_begin", i)
                        await lab.gate(f"cleanup:{i}")  # the task's own cleanup takes a while
                    raise
            await lab.gate(f"task:{i}")
            if r.outcomes[i] == "raise":
                raise ValueError(f"boom{i}")
            return i
        finally:
            lab.rec("task_end", i)

    executor: Any = InlineExecutor()
    if spec.get("sync"):
        import concurrent.futures

        class GateExecutor(concurrent.futures.Executor):
            """a pool whose worker 'threads' finish when the scheduler opens the task's gate (deterministic long-running sync tasks)"""

            def submit(self, fn: Any, /, *a: Any, **k: Any) -> Any:
                f: Any = concurrent.futures.Future()
                i = a[1][0] if len(a) > 1 and a[1] else -1  # _run_sync(target, args, kwargs)
                lab.rec("task_start", i)
                gate = lab.loop.create_future()
                lab.gates[f"task:{i}"] = gate

                def finish(_: Any) -> None:
                    try:
                        f.set_result(fn(*a, **k))
                    except BaseException as exc:  # noqa: BLE001
                        f.set_exception(exc)
                    lab.rec("task_end", i)

                gate.add_done_callback(finish)
                return f

        executor = GateExecutor()

        def target_sync(i: int) -> Any:
            if r.outcomes[i] == "raise":
                raise ValueError(f"boom{i}")
            return i

        broker.register_task(target_sync, task_name="t")
    else:
        broker.register_task(target, task_name="t")
    if spec.get("record_mw"):
        from vt.props._recv import make_middleware

        broker.add_middlewares(make_middleware(lab, 0, {h: "sync" for h in ("pre_execute", "on_error", "post_execute", "post_save")}))
    if spec.get("ready"):
        lab.no_arrival_gates = True  # type: ignore[attr-defined]
    msgs: List[Any] = []
    for i in range(M):
        if r.kinds[i] == "malformed":
            data = b"not-json-%d" % i
        elif r.kinds[i] == "empty":
            data = b""
        elif r.kinds[i] == "empty_raw":
            msgs.append(bytes())
            continue
        elif r.kinds[i] == "malformed_raw":
            # an un-wrapped bytes payload whose content happens to equal the receiver's internal end-of-queue marker
            msgs.append(bytes([45, 49]))
            continue
        else:
            labels = {"hook_raise": True} if r.outcomes[i] == "hook_raise" else ({"timeout": 5} if r.outcomes[i] in ("timeout", "timeout_cleanup") else ({"timeout": 0} if r.outcomes[i] == "timeout_zero" else {}))
            name = {"valid": "t", "late_task": "late"}.get(r.kinds[i], "nope")
            # only some labels carry type information (the others were added by a pre_send hook / foreign producer)
            data = encode(broker, name, f"id{i}", [i], {**labels, "tag": "x"}, labels_types={"tag": 3})
        msgs.append(ackable(lab, i, data, spec.get("ack_mode", False)) if spec.get("ackable", True) else data)
    broker.script = msgs
    recv = Receiver(
        broker, executor=executor, run_startup=False, max_async_tasks=A, max_prefetch=P,
        max_tasks_to_execute=N, wait_tasks_timeout=r.wtt,
    )
    ident: Dict[int, List[int]] = {}
    for i_, m_ in enumerate(msgs):
        ident.setdefault(id(m_), []).append(i_)  # equal raw payloads may be one shared object: attribute in delivery order
    real_cb = recv.callback

    async def cb(message: Any, raise_err: bool = False) -> None:
        slot = ident.get(id(message)) or [-1]
        i = slot.pop(0) if len(slot) > 1 else slot[0]
        lab.rec("cb_begin", i)
        try:
            await real_cb(message=message, raise_err=raise_err)
        finally:
            lab.rec("cb_end", i)

    recv.callback = cb  # type: ignore[method-assign]
    finish = asyncio.Event()
    lab.receiver = recv  # type: ignore[attr-defined]
    # the semaphores are identified by what they were built from (the limit objects), not by attribute name
    lab.exec_sem = _find_sem(recv, A, "sem")  # type: ignore[attr-defined]
    lab.prefetch_sem = _find_sem(recv, P, "sem_prefetch")  # type: ignore[attr-defined]

    def stop() -> None:
        r.stop_at = len(lab.ev)
        r.info["t_stop"] = lab.loop.time()
        finish.set()

    lab.env["stop"] = stop
    from taskiq import AsyncBroker as _AB

    saved_registry = dict(_AB.global_task_registry)
    if "late_task" in r.kinds:
        def register_late() -> None:
            # the task becomes known while the worker is running (lazy import registering a shared task)
            from taskiq.brokers.shared_broker import AsyncSharedBroker

            AsyncSharedBroker().task(task_name="late")(target)

        lab.env["register_late"] = register_late
    main = lab.loop.create_task(recv.listen(finish))
    K = spec.get("K", 8)
    stream_end = spec.get("stream_end", False)
    consecutive_ticks = 0
    made = 0
    try:
        loop = lab.loop
        # ---- explored prefix
        preempt = spec.get("preempt", 0)
        while True:
            if preempt > 0 and loop._ready and made < K and not main.done():
                # a choice point *between two loop iterations*, while callbacks are still ready: an external event (I/O completion,
                # signal handler) may land here, not only when the loop is idle
                opts = ["~run"] + sorted(g for g, f in lab.gates.items() if not f.done() and not g.startswith("hang:")
                                         and (g != "stream" or stream_end)) + sorted(lab.env)
                pick = c.choose(opts, "mid")
                if pick == "~run":
                    loop._run_once()
                    continue
                preempt -= 1
                made += 1
                lab.rec("preempt", pick)
                _apply(lab, pick)
                consecutive_ticks = 0
                continue
            loop.settle()
            if on_step is not None:
                on_step(r)
            if main.done() or made >= K:
                break
            opts = sorted(g for g, f in lab.gates.items() if not f.done() and not g.startswith("hang:")
                          and (g != "stream" or stream_end))
            opts += sorted(lab.env)
            if loop.next_timer() is not None and consecutive_ticks < 2:
                opts.append("~tick")
            if not opts:
                break
            forced = spec.get("prefix") or []
            if made < len(forced):
                if forced[made] >= len(opts):
                    raise sym.Abort("prefix index out of range for this state")
                pick = opts[forced[made]]
                lab.rec("forced", pick)
            else:
                pick = c.choose(opts, "env")
            made += 1
            _apply(lab, pick)
            consecutive_ticks = consecutive_ticks + 1 if pick == "~tick" else 0
        # ---- deterministic completion
        for _ in range(200):
            loop.settle()
            if on_step is not None:
                on_step(r)
            if main.done():
                break
            opts = sorted(g for g, f in lab.gates.items() if not f.done() and not g.startswith("hang:") and g != "stream")
            if opts:
                _apply(lab, opts[0])
                continue
            if "stop" in lab.env:
                _apply(lab, "stop")
                continue
            if loop.next_timer() is not None:
                _apply(lab, "~tick")
                continue
            r.stuck = True
            break
        r.returned = main.done()
        r.info["t_end"] = lab.loop.time()
        if main.done() and not main.cancelled() and main.exception() is not None:
            r.info["listen_exception"] = repr(main.exception())
        sem = lab.exec_sem  # type: ignore[attr-defined]
        r.info["sem_waiters"] = len(getattr(sem, "_waiters", None) or ()) if sem is not None else 0
        r.info["sem_value"] = getattr(sem, "_value", None) if sem is not None else None
        r.info["prefetch_value"] = getattr(lab.prefetch_sem, "_value", None)  # type: ignore[attr-defined]
    finally:
        lab.close()
        _AB.global_task_registry.clear()
        _AB.global_task_registry.update(saved_registry)
    return r


def _find_sem(recv: Any, limit: Any, usual_name: str) -> Any:
    """The asyncio.Semaphore of `recv` that was created with `limit` (None when the receiver has none)."""
    if limit is None:
        return None
    found = [v for v in vars(recv).values() if isinstance(v, asyncio.Semaphore) and getattr(v, "_value", None) is limit]
    if len(found) == 1:
        return found[0]
    cand = getattr(recv, usual_name, None)
    return cand if isinstance(cand, asyncio.Semaphore) else None


def _apply(lab: Lab, pick: str) -> None:
    if pick == "~tick":
        lab.rec("tick", round(lab.loop.next_timer() or 0.0, 3))
        lab.loop.tick()
    elif pick in lab.env:
        fn = lab.env.pop(pick)
        lab.rec("env", pick)
        fn()
    else:
        fut = lab.gates.pop(pick)
        if not fut.done():
            fut.set_result(None)


# ------------------------------------------------------------------------- derived observations


def counts_at(ev: List[Any], upto: int) -> Dict[str, int]:
    taken = begun = ended = 0
    for e in ev[:upto]:
        if e[0] == "taken":
            taken += 1
        elif e[0] == "cb_begin":
            begun += 1
        elif e[0] == "cb_end":
            ended += 1
    return {"taken": taken, "live": begun - ended, "unfinished": taken - ended}
