"""C02 -- acknowledgement happens exactly once and never before the configured point.

Real code executed: Receiver.callback, Receiver.run_task, utils.maybe_awaitable (real asyncio on a
virtual-time loop).  Decision variables: acknowledge type, sync/async ack, sync/async task, task outcome
(return / Exception / BaseException-only / no-result / CancelledError / timeout), timeout label, backend
failure; for two concurrent messages additionally every interleaving of their suspension points.
"""
from __future__ import annotations

from typing import Any, Dict, List

from vt import sym
from vt.props import _cb

ID = "C02"
LEVEL = "other"
TECHNIQUE = "exhaustive path exploration (symbolic choice variables, z3-checked feasibility) of the real Receiver.callback on a virtual-time loop; per-prefix ack-position obligations"
EXPLANATION = (
    "Path-wise symbolic execution of the real Receiver.callback/run_task: configuration, outcomes, fault injection and the "
    "scheduler's interleaving decisions are choice variables of the explorer, every feasible decision vector is executed on a "
    "deterministic virtual-time asyncio loop, and on each path the obligations 'exactly one ack' and 'ack not before the configured "
    "point' (equivalently: no trace prefix contains the ack without its point) are checked on the recorded event order."
)
ASSUMPTIONS = [
    "hooks do not raise, except a raising post_save hook (handled like a backend failure by the code)",
    "thread/process pool execution of sync tasks is replaced by an inline executor",
    "interleavings are explored at the granularity of environment suspension points (task body, result backend, async ack)",
]
TRUSTED = ["CPython asyncio (real, on a virtual clock)", "vt.sym explorer", "recording stubs in vt/props/_recv.py"]
BOUNDS = {"cancellation": "of message 0's processing at one scheduler-chosen suspension point (1 message, outcomes return / no-result)", "messages": "1 (all configurations); 2 concurrent (2 outcomes quick / all 6 thorough); 3 concurrent (thorough, reduced)", "middlewares": "<= 1", "timer ticks": "<= 6"}
REQUIRED_COVERS = ["processing_cancelled", "acked_although_cancelled", "when_received", "when_executed", "when_saved", "async_ack", "sync_ack", "timeout_fired", "no_result", "backend_failed", "pair_interleaved", "post_save_raises", "same_task_id", "via_listen"]


def cases(tier: str, hname: str = "harness") -> List[Any]:
    if hname == "via_listen":
        return [{"M": 3, "K": 5 if tier == "quick" else 6, "prefix": [p], "cfg": cfg} for p in range(3) for cfg in ("quota", "plain")]
    out: List[Any] = []
    for ack in _cb.ACKS:
        out.append({"n": 1, "ack": ack, "async_ack": "future"})
        for async_ack in (False, True):
            out.append({"n": 1, "ack": ack, "async_ack": async_ack})
            pair_out = ("return", "raise_exc") if tier == "quick" else _cb.OUTCOMES
            for o0 in pair_out:
                out.append({"n": 2, "ack": ack, "async_ack": async_ack, "target": "async", "outcome0": o0,
                            "timeout_label0": False, "timeout_label1": False, "pair_outcomes": pair_out})
            # two overlapping deliveries of the same task id (a redelivery / duplicate)
            out.append({"n": 2, "ack": ack, "async_ack": async_ack, "target": "async", "outcome0": "return", "same_id": True,
                        "timeout_label0": False, "timeout_label1": False, "backend_fail0": False, "backend_fail1": False, "pair_outcomes": ("return", "raise_exc")})
            # the processing of the message is cancelled (worker crash / shutdown) at any suspension point: task body, async
            # post_execute hook, result backend, async ack
            for o0 in ("return", "no_result"):
                out.append({"n": 1, "ack": ack, "async_ack": async_ack, "target": "async", "outcome0": o0, "timeout_label0": False,
                            "backend_fail0": False, "task_gate": True, "backend_gate": True, "crash": True})
            if tier == "thorough":
                for o0 in ("return", "raise_exc", "timeout"):
                    out.append({"n": 3, "ack": ack, "async_ack": async_ack, "target": "async", "outcome0": o0, "timeout_label0": False,
                                "timeout_label1": False, "timeout_label2": False, "backend_fail2": False, "pair_outcomes": ("return", "raise_exc")})
    return out


def _mentions(res: Any, i: int) -> bool:
    if not res.is_err:
        return tuple(res.return_value or ()) == ("value", i) or tuple(res.return_value or ()) == ("late", i)
    return str(i) in str(getattr(res.error, "args", ""))


def check_ack(c: sym.Ctx, lab: Any, i: int, ack: str) -> None:
    same = bool(lab.spec.get("same_id"))
    tid = "id0" if same else f"id{i}"
    done = [e for e in lab.ev if e[0] == "cb_done" and e[1] == i]
    c.check(bool(done) and done[0][2] is None, "callback_completes", msg=i, done=done)
    calls, effs = lab.count("ack_call", i), lab.count("ack", i)
    if done and effs == 1:
        c.check(lab.index("ack", i) < lab.ev.index(done[0]), "ack_awaited_before_processing_completes", msg=i, ack_type=ack)
    c.check(calls == 1 and effs == 1, "ack_exactly_once", msg=i, calls=calls, effects=effs, ack_type=ack)
    if effs < 1:
        return
    pos = lab.index("ack", i)
    start, end = lab.index("task_start", i), lab.index("task_end", i)
    if ack == "when_received":
        c.check(start < 0 or pos < start, "ack_when_received_before_start", msg=i)
    elif ack == "when_executed":
        c.check((start < 0 or end >= 0) and pos > end, "ack_when_executed_after_task_end", msg=i, pos=pos, end=end)
    else:
        begins = [e for e in lab.ev if e[:3] == ("set_result", "begin", tid) and (not same or _mentions(e[3], i))]
        if begins:
            seq = begins[0][4]
            fin = max(lab.index("set_result", "end", tid, seq), lab.index("set_result", "raise", tid, seq))
            c.check(fin >= 0 and pos > fin, "ack_when_saved_after_save_attempt", msg=i, pos=pos, fin=fin)
        else:
            c.check((start < 0 or end >= 0) and pos > end, "ack_when_saved_after_task_end_when_skipped", msg=i)
    # other messages' acks must not be triggered by this message: covered by exactly-once per message


def check_ack_crashed(c: sym.Ctx, lab: Any, ack: str, outcome: str) -> None:
    """message 0 after its processing was cancelled at some suspension point: the acknowledgement happens at most once and, if it
    happens, its configured point had been reached (a crash before the point leaves the message unacknowledged)"""
    calls, effs = lab.count("ack_call", 0), lab.count("ack", 0)
    c.check(calls <= 1 and effs <= 1, "ack_at_most_once_when_processing_is_cancelled", calls=calls, effects=effs, ack_type=ack)
    if effs < 1:
        return
    c.cover("acked_although_cancelled")
    pos = lab.index("ack", 0)
    start, end = lab.index("task_start", 0), lab.index("task_end", 0)
    if ack == "when_received":
        c.check(start < 0 or pos < start, "ack_when_received_before_start", msg=0, crashed=True)
    elif ack == "when_executed":
        c.check(end >= 0 and pos > end, "ack_when_executed_after_task_end", msg=0, pos=pos, end=end, crashed=True)
    else:
        fin = max(lab.index("set_result", "end", "id0"), lab.index("set_result", "raise", "id0"))
        if outcome == "no_result":
            c.check(end >= 0 and pos > end, "ack_when_saved_after_task_end_when_skipped", msg=0, crashed=True)
        else:
            c.check(fin >= 0 and pos > fin, "ack_when_saved_after_save_attempt", msg=0, pos=pos, fin=fin, crashed=True)


def harness(c: sym.Ctx, case: Dict[str, Any]) -> None:
    spec = {k: v for k, v in case.items() if k not in ("n", "pair_outcomes")}
    n = case["n"]
    if case.get("crash"):
        spec["mws"] = [{"post_execute": "async"}]
        lab = _cb.run(c, spec, n_msgs=1)
        c.cover(spec["ack"])
        c.check(not lab.deadlock and lab.main_done, "no_deadlock", events=lab.ev[-10:])
        if ("env", "crash") in [e[:2] for e in lab.ev]:
            c.cover("processing_cancelled")
            check_ack_crashed(c, lab, spec["ack"], spec["outcome0"])
        else:
            check_ack(c, lab, 0, spec["ack"])
        return
    if n >= 2:
        for k in range(1, n):
            spec[f"outcome{k}"] = c.choose(list(case["pair_outcomes"]), f"outcome{k}")
        spec["mws"] = []
    else:
        spec["mws"] = [{"pre_execute": "sync", "post_execute": "sync", "post_save": "sync", "on_error": "sync"}] if c.flag("with_mw") else []
        if spec["mws"] and c.flag("post_save_hook_raises"):
            # a failing post_save hook is handled like a failing backend (logged, swallowed): still exactly one ack
            spec["raising_hook"] = "post_save"
            c.cover("post_save_raises")
    lab = _cb.run(c, spec, n_msgs=n)
    c.cover(spec["ack"])
    c.cover("async_ack" if spec["async_ack"] else "sync_ack")
    if any(e[0] == "tick" for e in lab.ev):
        c.cover("timeout_fired")
    if lab.count("set_result", "raise"):
        c.cover("backend_failed")
    for i in range(n):
        if spec.get(f"outcome{i}") == "no_result":
            c.cover("no_result")
    if spec.get("same_id"):
        c.cover("same_task_id")
    if n == 2:
        s0, e0, s1 = lab.index("task_start", 0), lab.index("task_end", 0), lab.index("task_start", 1)
        if s0 < s1 < e0:
            c.cover("pair_interleaved")
    c.check(not lab.deadlock and lab.main_done, "no_deadlock", events=lab.ev[-10:])
    for i in range(n):
        check_ack(c, lab, i, spec["ack"])


def budget(tier: str) -> Dict[str, Any]:
    return {"max_paths": 400000, "budget_s": 600 if tier == "quick" else 3000}


def via_listen(c: sym.Ctx, case: Dict[str, Any]) -> None:
    """exactly one acknowledgement per delivered message also when the messages come through Receiver.listen
    (prefetch queue, max_tasks_to_execute quota, graceful stop) - the components that decide what reaches callback()"""
    from vt.props import _listen

    c.cover("via_listen")
    M = case["M"]
    spec = {"M": M, "kinds": ["valid"] * M, "outcomes": ["return"] * M, "A": "sym", "P": "sym", "N": "sym" if case["cfg"] == "quota" else "none",
            "wtt": None, "K": case["K"], "prefix": case["prefix"]}
    r = _listen.run(c, spec)
    ev = r.lab.ev
    c.check(r.returned and not r.stuck, "run_completes", info=r.info)
    for i in sorted({e[1] for e in ev if e[0] == "taken"}):
        acks = sum(1 for e in ev if e[0] == "ack" and e[1] == i)
        calls = sum(1 for e in ev if e[0] == "ack_call" and e[1] == i)
        c.check(acks == 1 and calls == 1, "ack_exactly_once", msg=i, calls=calls, effects=acks, via="listen", A=r.A, P=r.P, N=r.N)
        end = next((k for k, e in enumerate(ev) if e[0] == "task_end" and e[1] == i), -1)
        pos = next((k for k, e in enumerate(ev) if e[0] == "ack" and e[1] == i), -1)
        if pos >= 0:
            c.check(end >= 0 and pos > end, "ack_when_saved_after_task_end_when_skipped", msg=i, via="listen")


HARNESSES = {"harness": harness, "via_listen": via_listen}
