"""C08 -- arguments reach the task function unchanged and bound to the right parameters.

Real code executed: AsyncKicker._prepare_message/_prepare_arg, ProxyFormatter dumps/loads (real JSON wire),
Receiver.run_task, params_parser.parse_params (real pydantic parse_obj_as), call site target(*args, **kwargs).
Decision variables: number of parameters, per parameter its kind (un-annotated, Any, int, str, pydantic model,
dataclass, dependency), keyword-only split, default or not, the value class sent (convertible / not convertible /
None), how many arguments are passed positionally, validate_params.
"""
from __future__ import annotations

import dataclasses
import itertools
from typing import Any, Dict, List

import pydantic

from vt import sym
from vt.props._recv import InlineExecutor, Lab, make_broker

ID = "C08"
LEVEL = "other"
TECHNIQUE = "exhaustive path exploration (symbolic choice variables) over signature shapes x argument splits x value classes through the real kicker -> JSON wire -> parse_params -> call chain"
EXPLANATION = (
    "Path-wise symbolic execution of the real send->wire->parse_params->call chain: the task signature (up to 3 quick / 4 thorough "
    "parameters; each un-annotated, Any, int, str, pydantic model, dataclass or dependency; positional or keyword-only; with or "
    "without default), the positional/keyword split, the value class per argument and validate_params are decision variables; on every "
    "feasible decision vector the generated task function must receive, per parameter, exactly the expected value and type."
)
ASSUMPTIONS = [
    "value classes are representative: the code under test only indexes, counts and forwards values; conversion itself is pydantic (executed, not encoded)",
    "the second sentence of C08 (formatter/serializer round trip equality) is exercised through the real JSON wire only for these messages; it is not claimed in general",
]
TRUSTED = ["pydantic 2.x (executed)", "json (executed)", "vt.sym explorer"]
BOUNDS = {"parameters": "<= 3 quick, <= 4 thorough (the fourth from 5 of the 10 kinds)", "value classes per kind": "2-3", "serializer": "bundled JSON"}
REQUIRED_COVERS = ["converted", "not_convertible_unchanged", "unannotated_unchanged", "validate_off", "keyword", "positional", "kwonly", "dep", "model", "none_value", "second_message", "varkw", "default_noconv", "default_absent"]


class PModel(pydantic.BaseModel):
    q: int
    s: str = "s"


class PDefaults(pydantic.BaseModel):
    a: int = 1


# a different model class with the same module and qualified name (hence the same repr) as PModel, e.g. built by a factory
ShadowPModel = pydantic.create_model("PModel", __module__=__name__, q=(int, 5), other=(str, "shadow"))


@dataclasses.dataclass
class DC:
    q: int
    s: str = "s"


KINDS = ("plain", "any", "int", "str", "model", "dc", "dep", "float", "modeld", "intd")
# value classes per kind: (label, value sent, value expected when validation on, expected when off)
VALUES: Dict[str, List[Any]] = {
    "plain": [("strnum", "5", "5", "5"), ("dict", {"q": 1}, {"q": 1}, {"q": 1})],
    "any": [("strnum", "5", "5", "5"), ("none", None, None, None)],
    "int": [("conv", "5", 5, "5"), ("noconv", "zz", "zz", "zz"), ("none", None, None, None)],
    "str": [("same", "abc", "abc", "abc"), ("noconv", [1], [1], [1])],
    "model": [("inst", PModel(q=3), PModel(q=3), {"q": 3, "s": "s"}), ("noconv", {"bad": 1}, {"bad": 1}, {"bad": 1})],
    "modeld": [("empty", {}, PDefaults(), {}), ("inst", PDefaults(a=2), PDefaults(a=2), {"a": 2})],
    "dc": [("inst", DC(q=4), DC(q=4), {"q": 4, "s": "s"}), ("noconv", "zz", "zz", "zz")],
    "dep": [("absent", None, 99, 99), ("explicit", 50, 50, 50)],
    "float": [("zero", 0, 0.0, 0), ("conv", "2.5", 2.5, "2.5")],
    # an annotated parameter with an ordinary default: the default is used only when the caller passed nothing
    "intd": [("conv", "5", 5, "5"), ("noconv", "zz", "zz", "zz"), ("absent", None, 7, 7)],
}


def cases(tier: str) -> List[Any]:
    top = 3 if tier == "quick" else 4
    out = []
    for n in range(1, top + 1):
        for kinds in itertools.product(range(len(KINDS)), repeat=min(n, 2)):
            out.append({"n": n, "head": list(kinds)})
    return out


def _dep() -> int:
    return 99


def build_function(kinds: List[str], kwonly_from: int, rec: Dict[str, Any], varkw: bool = False) -> Any:
    from taskiq import TaskiqDepends

    ann = {"plain": "", "any": ": Any", "int": ": int", "str": ": str", "model": ": PModel", "dc": ": DC", "dep": ": int", "float": ": float", "modeld": ": PDefaults", "intd": ": int"}
    parts = []
    for i, k in enumerate(kinds):
        if i == kwonly_from:
            parts.append("*")
        default = " = TaskiqDepends(_dep)" if k == "dep" else (" = 7" if k == "intd" else "")
        parts.append(f"p{i}{ann[k]}{default}")
    if varkw:
        parts.append("**extra")
    src = f"async def task_fn({', '.join(parts)}):\n    rec.update(locals())\n    return 1\n"
    ns = {"Any": Any, "PDefaults": PDefaults, "PModel": PModel, "DC": DC, "TaskiqDepends": TaskiqDepends, "_dep": _dep, "rec": rec}
    exec(src, ns)  # noqa: S102
    ns["task_fn"].__module__ = __name__
    return ns["task_fn"], src


def harness(c: sym.Ctx, case: Dict[str, Any]) -> None:
    from taskiq.kicker import AsyncKicker
    from taskiq.receiver import Receiver

    n = case["n"]
    # a fourth parameter (thorough tier) is drawn from the kinds that differ in how they are parsed / defaulted
    LAST = ("plain", "int", "model", "dep", "intd")
    kinds = [KINDS[k] for k in case["head"]] + [
        (LAST[c.choose(len(LAST), f"kind{i}")] if i == 3 else KINDS[c.choose(len(KINDS), f"kind{i}")]) for i in range(len(case["head"]), n)]
    # python requires parameters with defaults (deps) after the ones without among positional ones
    kwonly_from = c.choose(list(range(1, n + 1)), "kwonly_from")  # == n: no keyword-only section
    pos_region = kinds[:kwonly_from]
    seen_dep = False
    for k in pos_region:
        if k in ("dep", "intd"):
            seen_dep = True
        elif seen_dep:
            raise sym.Abort("non-default parameter after default one")
    vals = [c.choose(len(VALUES[k]), f"val{i}") for i, k in enumerate(kinds)]
    # the caller passes the first `npos` non-dependency positional-capable parameters positionally, the rest by keyword
    passable = [i for i, k in enumerate(kinds) if VALUES[k][vals[i]][0] != "absent"]
    pos_capable = [i for i in passable if i < kwonly_from and kinds[i] != "dep"]
    # positional passing must be a prefix of the parameter list (no dependency parameter in between)
    max_pos = 0
    for idx, i in enumerate(pos_capable):
        if i == idx:
            max_pos = idx + 1
        else:
            break
    npos = c.choose(list(range(0, max_pos + 1)), "npos")
    validate = c.flag("validate")
    varkw = c.flag("accepts_arbitrary_keywords")
    # keyword names and string values with surrounding whitespace / odd characters must arrive untouched
    EXTRA = {" spaced ": " v ", "spaced": 1, "dotted.name": [" x "]}
    rec: Dict[str, Any] = {}
    fn, src = build_function(kinds, kwonly_from if kwonly_from < n else -1, rec, varkw)
    lab = Lab(c)
    try:
        from taskiq.compat import parse_obj_as

        # another task in the same process has used a same-named, different model type before
        shadow = parse_obj_as(ShadowPModel, {"q": 1})
        c.check(type(shadow) is ShadowPModel, "conversion_uses_the_annotated_type", got=type(shadow).__name__)
        broker = make_broker(lab)
        broker.register_task(fn, task_name="t")
        recv = Receiver(broker, executor=InlineExecutor(), run_startup=False, max_async_tasks=None, validate_params=validate)
        args = [VALUES[kinds[i]][vals[i]][1] for i in pos_capable[:npos]]
        kwargs = {f"p{i}": VALUES[kinds[i]][vals[i]][1] for i in passable if i not in pos_capable[:npos]}
        if varkw:
            c.cover("varkw")
            kwargs.update(EXTRA)
        msg = AsyncKicker("t", broker, {}).with_task_id("id0")._prepare_message(*args, **kwargs)
        wire = broker.formatter.dumps(msg)
        decoded = broker.formatter.loads(wire.message)
        c.check(decoded == msg, "wire_round_trip_equal", sent=msg, got=decoded)
        out: Dict[str, Any] = {}

        async def main() -> None:
            out["res"] = await recv.run_task(fn, decoded)

        mt = lab.loop.create_task(main())
        lab.drive(mt)
        first_rec = dict(rec)
        # a later message to the same task on the same receiver, with convertible values: an earlier conversion failure
        # must not change how the next message is parsed
        second_needed = any(VALUES[k][vals[i]][0] == "noconv" for i, k in enumerate(kinds))
        out2: Dict[str, Any] = {}
        if second_needed:
            c.cover("second_message")
            rec.clear()
            args2 = [VALUES[kinds[i]][0][1] for i in pos_capable[:npos]]
            kwargs2 = {f"p{i}": VALUES[kinds[i]][0][1] for i in passable if i not in pos_capable[:npos] and kinds[i] != "dep"}
            msg2 = AsyncKicker("t", broker, {}).with_task_id("id1")._prepare_message(*args2, **kwargs2)
            decoded2 = broker.formatter.loads(broker.formatter.dumps(msg2).message)

            async def main2() -> None:
                out2["res"] = await recv.run_task(fn, decoded2)

            lab.drive(lab.loop.create_task(main2()))
            second_rec = dict(rec)
            rec.clear()
            rec.update(first_rec)
    finally:
        lab.close()
    if second_needed:
        res2 = out2.get("res")
        c.check(res2 is not None and not res2.is_err, "task_invoked_without_error", which="second message", err=getattr(res2, "error", None))
        if res2 is not None and not res2.is_err:
            for i, k in enumerate(kinds):
                label, sent, want_on, want_off = VALUES[k][0]
                if k == "dep":
                    want2: Any = 99
                elif VALUES[k][vals[i]][0] == "absent":
                    want2 = VALUES[k][vals[i]][2]  # not passed in either message: the parameter's own default
                else:
                    want2 = want_on if validate else want_off
                got2 = second_rec.get(f"p{i}", "<missing>")
                c.check(type(got2) is type(want2) and got2 == want2, "argument_bound_to_its_parameter", which="second message after a failed conversion",
                        param=f"p{i}", kind=k, got=got2, want=want2, signature=src.splitlines()[0], validate=validate)
    res = out.get("res")
    c.event("signature", src.splitlines()[0], "args", args, "kwargs", kwargs, "validate", validate)
    c.check(res is not None and not res.is_err, "task_invoked_without_error", src=src, args=args, kwargs=kwargs, err=getattr(res, "error", None))
    if res is None or res.is_err:
        return
    c.cover("validate_off" if not validate else "converted")
    if varkw:
        got_extra = rec.get("extra", "<missing>")
        c.check(got_extra == EXTRA and list(got_extra) == list(EXTRA), "arbitrary_keyword_arguments_arrive_under_their_own_names", got=got_extra, want=EXTRA)
    if npos:
        c.cover("positional")
    if kwargs:
        c.cover("keyword")
    if kwonly_from < n:
        c.cover("kwonly")
    for i, k in enumerate(kinds):
        label, sent, want_on, want_off = VALUES[k][vals[i]]
        want = want_on if validate else want_off
        got = rec.get(f"p{i}", "<missing>")
        if k == "dep":
            c.cover("dep")
        if k == "intd":
            c.cover("default_" + label)
        if k in ("model", "dc", "modeld"):
            c.cover("model")
        if label == "none":
            c.cover("none_value")
        if label == "noconv":
            c.cover("not_convertible_unchanged")
        if k == "plain":
            c.cover("unannotated_unchanged")
        c.check(type(got) is type(want) and got == want, "argument_bound_to_its_parameter", param=f"p{i}", kind=k, value=label,
                got=got, want=want, signature=src.splitlines()[0], args=args, kwargs=kwargs, validate=validate)


def signature(f: Dict[str, Any]) -> str:
    return f["label"]


def budget(tier: str) -> Dict[str, Any]:
    return {"max_paths": 2000000, "budget_s": 900 if tier == "quick" else 3400}
