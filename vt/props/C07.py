"""C07 -- the stored result faithfully reflects the outcome of the execution.

Real code executed: Receiver.callback, Receiver.run_task (+ _run_sync, maybe_awaitable, TaskiqResult
construction) on a virtual-time loop.  Decision variables as in C02 plus the race between task
completion and the timeout timer; for two concurrent messages every interleaving.
"""
from __future__ import annotations

import asyncio
from typing import Any, Dict, List

from vt import sym
from vt.props import _cb
from vt.props._recv import BaseOnly

ID = "C07"
LEVEL = "other"
TECHNIQUE = "exhaustive path exploration (symbolic choice variables) of the real Receiver.callback/run_task on a virtual-time loop; obligations on set_result calls and the saved TaskiqResult"
EXPLANATION = (
    "Path-wise symbolic execution of the real Receiver.callback/run_task: outcome class (return, Exception, BaseException-only, "
    "no-result, CancelledError, timeout), sync/async task, timeout label, backend failure, ack type and - for two concurrent "
    "messages - the interleaving are choice variables; on every feasible path the number of set_result calls, the task id, is_err, "
    "return value, error object/class and labels of the saved result are checked against the chosen outcome."
)
ASSUMPTIONS = [
    "hooks do not raise", "inline executor instead of a thread pool for sync tasks",
    "what a real backend serialises is outside (C19)",
]
TRUSTED = ["CPython asyncio (real, virtual clock)", "pydantic TaskiqResult construction (real)", "vt.sym explorer", "recording stubs"]
BOUNDS = {"messages": "1 (all configurations); 2 concurrent (2 outcomes quick / all 6 thorough); 3 concurrent (thorough, reduced)", "timer ticks": "<= 6", "timeout label": "5 s"}
REQUIRED_COVERS = ["inmemory_backend", "history_reuse_task_id", "history_reregister_other_kind", "timeout_zero", "raise_system_exit", "return", "raise_exc", "raise_base", "no_result", "cancelled", "timeout", "sync", "async", "backend_failed", "timeout_label_unused"]


def cases(tier: str, hname: str = "harness") -> List[Any]:
    if hname == "inmemory":
        return [{"max_stored": k} for k in (1, 2, 3, 100, -1)]
    out: List[Any] = []
    for ack in _cb.ACKS if tier == "thorough" else ("when_saved", "when_received"):
        for target in ("async", "sync"):
            out.append({"n": 1, "ack": ack, "target": target, "async_ack": False})
    pair_out = ("return", "raise_exc") if tier == "quick" else _cb.OUTCOMES
    for o0 in pair_out:
        for bf0 in (False, True):
            out.append({"n": 2, "ack": "when_saved", "async_ack": False, "target": "async", "outcome0": o0, "backend_fail0": bf0,
                        "timeout_label0": False, "timeout_label1": False, "pair_outcomes": pair_out})
            if tier == "thorough" and o0 in ("return", "raise_exc", "timeout"):
                out.append({"n": 3, "ack": "when_saved", "async_ack": False, "target": "async", "outcome0": o0, "backend_fail0": bf0,
                            "timeout_label0": False, "timeout_label1": False, "timeout_label2": False, "backend_fail2": False,
                            "pair_outcomes": ("return", "raise_exc", "no_result")})
    return out


EXPECT_ERR = {"raise_exc": ValueError, "raise_base": BaseOnly, "cancelled": asyncio.CancelledError, "timeout": asyncio.TimeoutError,
              "raise_system_exit": SystemExit, "timeout0": asyncio.TimeoutError}


def check_result(c: sym.Ctx, lab: Any, i: int, spec: Dict[str, Any]) -> None:
    tid = f"id{i}"
    o = spec[f"outcome{i}"]
    begins = [e for e in lab.ev if e[:2] == ("set_result", "begin")]
    mine = [e for e in begins if e[2] == tid]
    c.check(len(mine) == (0 if o == "no_result" else 1), "set_result_count", msg=i, outcome=o, n=len(mine))
    done = [e for e in lab.ev if e[0] == "cb_done" and e[1] == i]
    c.check(bool(done) and done[0][2] is None, "callback_completes", msg=i, done=done, outcome=o)
    c.check(lab.count("ack", i) == 1, "processing_completes_with_ack", msg=i, outcome=o, acks=lab.count("ack", i))
    if o == "timeout0":
        c.cover("timeout_zero")
        # with a zero timeout the function may be cancelled before it starts; it must in no case be left running
        c.check(lab.count("task_start", i) == lab.count("task_end", i), "timeout_enforced", value=0)
    if o == "timeout":
        ticks = [e for e in lab.ev if e[0] == "tick"]
        c.check(bool(ticks) and ticks[0][1] == 5.0 and lab.count("task_end", i) == 1, "timeout_enforced", ticks=ticks)
    if not mine:
        return
    res = mine[0][3]
    labels = {"user": f"L{i}"}
    if o == "timeout0":
        labels["timeout"] = 0
    elif spec.get(f"timeout_label{i}") or o == "timeout":
        labels["timeout"] = 5
    c.check(res.labels == labels, "result_labels", got=res.labels, want=labels)
    if o == "return":
        c.check(res.is_err is False and res.error is None and tuple(res.return_value) == ("value", i), "result_of_return",
                is_err=res.is_err, value=res.return_value, error=res.error)
    else:
        cls = EXPECT_ERR[o]
        ok = res.is_err is True and isinstance(res.error, cls)
        if o in ("raise_exc", "raise_base"):
            ok = ok and str(i) in str(res.error.args)
        c.check(ok, "result_of_failure", outcome=o, is_err=res.is_err, error=res.error)


def harness(c: sym.Ctx, case: Dict[str, Any]) -> None:
    spec = {k: v for k, v in case.items() if k not in ("n", "pair_outcomes")}
    n = case["n"]
    if n >= 2:
        for k in range(1, n):
            spec[f"outcome{k}"] = c.choose(list(case["pair_outcomes"]), f"outcome{k}")
    spec["mws"] = []
    if n == 1:
        base = _cb.OUTCOMES if spec["target"] == "async" else _cb.OUTCOMES[:5]
        extra = _cb.EXTRA_OUTCOMES if spec["target"] == "async" else _cb.EXTRA_OUTCOMES[:1]
        spec["outcome0"] = c.choose(list(base) + list(extra), "outcome0")
    lab = _cb.run(c, spec, n_msgs=n)
    c.check(lab.count("loop_aborted") == 0, "exception_does_not_escape_into_the_event_loop", aborted=[e for e in lab.ev if e[0] == "loop_aborted"])
    c.cover(spec["target"])
    for i in range(n):
        c.cover(spec[f"outcome{i}"])
        if spec.get(f"timeout_label{i}") and spec[f"outcome{i}"] != "timeout":
            c.cover("timeout_label_unused")
    if lab.count("set_result", "raise"):
        c.cover("backend_failed")
    c.check(not lab.deadlock and lab.main_done, "no_deadlock", events=lab.ev[-10:])
    for i in range(n):
        check_result(c, lab, i, spec)


def budget(tier: str) -> Dict[str, Any]:
    return {"max_paths": 400000, "budget_s": 600 if tier == "quick" else 3000}


def inmemory(c: sym.Ctx, case: Dict[str, Any]) -> None:
    """the bundled in-memory result backend, driven by the real receiver: the latest result is stored under its task id
    for every retention limit (including the smallest ones)"""
    from taskiq import InMemoryBroker

    from vt.props._recv import InlineExecutor, Lab

    c.cover("inmemory_backend")
    lab = Lab(c)
    out: Dict[str, Any] = {}
    try:
        broker = InMemoryBroker(max_stored_results=case["max_stored"], await_inplace=True)
        broker.receiver.executor = InlineExecutor()  # sync functions run at submit time instead of on a pool thread
        outcomes = [c.choose(["return", "raise"], f"o{k}") for k in range(3)]
        # histories inside one worker: a task id that is used again (a re-delivery, a retry that keeps its results), and a task
        # name that is registered again with the other kind of function (sync <-> async) between two executions
        hist = c.choose(["plain", "reuse_task_id", "reregister_other_kind"], "history")
        c.cover("history_" + hist)
        ids = ["id0", "id0", "id2"] if hist == "reuse_task_id" else ["id0", "id1", "id2"]
        first_kind = c.choose(["async", "sync"], "first_kind") if hist == "reregister_other_kind" else "async"
        other = {"async": "sync", "sync": "async"}
        kinds = [first_kind, other[first_kind], first_kind] if hist == "reregister_other_kind" else ["async"] * 3

        async def atarget(i: int) -> Any:
            if outcomes[i] == "raise":
                raise ValueError(f"boom{i}")
            return ("value", i)

        def starget(i: int) -> Any:
            if outcomes[i] == "raise":
                raise ValueError(f"boom{i}")
            return ("value", i)

        async def main() -> None:
            for i in range(3):
                task = broker.register_task(atarget if kinds[i] == "async" else starget, task_name="t")
                await task.kicker().with_task_id(ids[i]).kiq(i)
                out[i] = (await broker.result_backend.is_result_ready(ids[i]),)
                if out[i][0]:
                    out[i] += (await broker.result_backend.get_result(ids[i]),)

        mt = lab.loop.create_task(main())
        lab.drive(mt)
        exc = mt.exception() if mt.done() else None
        try:
            broker.executor.shutdown(wait=False)
        except Exception:  # noqa: BLE001
            pass
    finally:
        lab.close()
    c.check(exc is None, "inmemory_run_completes", exc=repr(exc))
    for i in range(3):
        got = out.get(i, (False,))
        c.check(bool(got[0]), "set_result_count", msg=i, stored=got[0], limit=case["max_stored"], backend="InmemoryResultBackend")
        if got[0]:
            res = got[1]
            rv = res.return_value
            ok = (res.is_err and "boom%d" % i in str(res.error)) if outcomes[i] == "raise" else (
                not res.is_err and isinstance(rv, (tuple, list)) and tuple(rv) == ("value", i))
            c.check(ok, "result_of_return" if outcomes[i] == "return" else "result_of_failure", msg=i, res=res)


HARNESSES = {"harness": harness, "inmemory": inmemory}
