"""vt.sym -- path-wise symbolic execution of *real* Python code objects with z3.

The code under analysis (functions of /repo/taskiq, loaded from the working tree on
every run) is executed natively.  Its inputs are proxy objects (`SymBool`, `SymInt`)
that wrap z3 terms.  Whenever the interpreter needs a concrete truth value of a proxy
(`if`, `while`, `and`, `or`, `not`, `in`, ...), `SymBool.__bool__` asks the solver
which outcomes are feasible under the current path condition and the explorer forks:
the program is re-executed from the start once per feasible decision vector (decision
replay, depth first).  The solver stack (push/pop) follows the decision vector, so a
replayed prefix costs no solver calls.

`Ctx.check(cond, label)` is an obligation: path-condition AND NOT cond must be unsat.
A satisfying assignment is a counterexample; it is stored with the values of every
declared symbol and the list of explicit choices so that the same harness can be
re-run in *concrete mode* (no proxies, real values) to confirm it on the real code.

The verdict "holds" for a harness case means: every feasible path of the harness was
explored (the decision tree is exhausted, no budget hit) and every obligation on
every path was unsat.  Budgets that are hit make the case inconclusive, never ok.
"""
from __future__ import annotations

import time
import traceback
from typing import Any, Callable, Dict, List, Optional, Sequence

import z3

_CTX: "Optional[Ctx]" = None


def ctx() -> "Ctx":
    assert _CTX is not None, "no active symbolic context"
    return _CTX


def active() -> "Optional[Ctx]":
    return _CTX


class Abort(BaseException):
    """Current path is pruned (infeasible assumption or path budget)."""


class HarnessError(Exception):
    """Something that makes the run inconclusive (never a pass, never a violation)."""


class Dec:
    __slots__ = ("kind", "val", "alts", "tag", "aux")

    def __init__(self, kind: str, val: int, alts: int, tag: Any) -> None:
        self.kind = kind  # 'b' branch, 'c' choice, 'a' assume
        self.val = val
        self.alts = alts  # number of alternatives still to be explored after val
        self.tag = tag
        self.aux: Any = None


# --------------------------------------------------------------------------- proxies


def _z(x: Any) -> Any:
    """Python value / proxy -> z3 term."""
    if isinstance(x, (SymInt, SymBool)):
        return x.e
    if isinstance(x, bool):
        return z3.BoolVal(x)
    if isinstance(x, int):
        v = _INTVALS.get(x)
        if v is None:
            v = z3.IntVal(x)
            if len(_INTVALS) < 4096:
                _INTVALS[x] = v
        return v
    raise TypeError(f"cannot lift {type(x)!r} to a z3 term")


_INTVALS: Dict[int, Any] = {}


def _is_intlike(x: Any) -> bool:
    return isinstance(x, SymInt) or (isinstance(x, int) and not isinstance(x, bool))


class SymBool:
    """Symbolic boolean.  Truth testing forks the path."""

    __vt_type__ = bool
    __slots__ = ("e",)

    def __init__(self, e: Any) -> None:
        self.e = e

    def __bool__(self) -> bool:
        return ctx().branch(self.e, True)  # terms inside a SymBool are simplified when it is built (mkbool)

    def __eq__(self, o: Any) -> Any:  # type: ignore[override]
        if isinstance(o, (SymBool, bool)):
            return mkbool(_z(self) == _z(o))
        return False

    def __ne__(self, o: Any) -> Any:  # type: ignore[override]
        if isinstance(o, (SymBool, bool)):
            return mkbool(_z(self) != _z(o))
        return True

    def __hash__(self) -> int:
        return hash(bool(self))

    def __and__(self, o: Any) -> Any:
        return mkbool(z3.And(self.e, _z(o)))

    __rand__ = __and__

    def __or__(self, o: Any) -> Any:
        return mkbool(z3.Or(self.e, _z(o)))

    __ror__ = __or__

    def __invert__(self) -> Any:
        return mkbool(z3.Not(self.e))

    def __int__(self) -> int:
        return 1 if bool(self) else 0

    def __index__(self) -> int:
        return int(self)

    def __str__(self) -> str:
        return "True" if bool(self) else "False"

    def __repr__(self) -> str:
        return f"<SymBool {self.e}>"

    def __format__(self, spec: str) -> str:
        return "<symbool>"


def mkbool(e: Any) -> Any:
    if isinstance(e, bool):
        return e
    e = z3.simplify(e)
    if z3.is_true(e):
        return True
    if z3.is_false(e):
        return False
    return SymBool(e)


def mkint(e: Any) -> Any:
    if isinstance(e, int):
        return e
    e = z3.simplify(e)
    if z3.is_int_value(e):
        return e.as_long()
    return SymInt(e)


class SymInt:
    """Symbolic mathematical integer (Python int semantics, no wrap-around)."""

    __vt_type__ = int
    __slots__ = ("e",)

    def __init__(self, e: Any) -> None:
        self.e = e

    # arithmetic
    def __add__(self, o: Any) -> Any:
        return mkint(self.e + _z(o)) if _is_intlike(o) else NotImplemented

    __radd__ = __add__

    def __sub__(self, o: Any) -> Any:
        return mkint(self.e - _z(o)) if _is_intlike(o) else NotImplemented

    def __rsub__(self, o: Any) -> Any:
        return mkint(_z(o) - self.e) if _is_intlike(o) else NotImplemented

    def __mul__(self, o: Any) -> Any:
        return mkint(self.e * _z(o)) if _is_intlike(o) else NotImplemented

    __rmul__ = __mul__

    def __neg__(self) -> Any:
        return mkint(-self.e)

    def __pos__(self) -> Any:
        return self

    def __abs__(self) -> Any:
        return mkint(z3.If(self.e >= 0, self.e, -self.e))

    def __floordiv__(self, o: Any) -> Any:
        if isinstance(o, int) and not isinstance(o, bool) and o > 0:
            return ctx().divmod(self.e, o)[0]
        return NotImplemented

    def __mod__(self, o: Any) -> Any:
        if isinstance(o, int) and not isinstance(o, bool) and o > 0:
            return ctx().divmod(self.e, o)[1]
        return NotImplemented

    def __divmod__(self, o: Any) -> Any:
        if isinstance(o, int) and not isinstance(o, bool) and o > 0:
            return ctx().divmod(self.e, o)
        return NotImplemented

    # comparisons
    def __eq__(self, o: Any) -> Any:  # type: ignore[override]
        if isinstance(o, (bool, SymBool)):
            return mkbool(self.e == z3.If(_z(o), 1, 0))
        if _is_intlike(o):
            return mkbool(self.e == _z(o))
        return False

    def __ne__(self, o: Any) -> Any:  # type: ignore[override]
        r = self.__eq__(o)
        if isinstance(r, SymBool):
            return mkbool(z3.Not(r.e))
        return not r

    def __lt__(self, o: Any) -> Any:
        return mkbool(self.e < _z(o)) if _is_intlike(o) else NotImplemented

    def __le__(self, o: Any) -> Any:
        return mkbool(self.e <= _z(o)) if _is_intlike(o) else NotImplemented

    def __gt__(self, o: Any) -> Any:
        return mkbool(self.e > _z(o)) if _is_intlike(o) else NotImplemented

    def __ge__(self, o: Any) -> Any:
        return mkbool(self.e >= _z(o)) if _is_intlike(o) else NotImplemented

    def __bool__(self) -> bool:
        return ctx().branch(self.e != 0)

    def concretize(self) -> int:
        return ctx().concretize(self.e)

    def __index__(self) -> int:
        return self.concretize()

    def __int__(self) -> int:
        return self.concretize()

    def __hash__(self) -> int:
        # all symbolic ints share one hash bucket, so dict / set look-ups among symbolic keys are decided by `==`
        # (a SymBool: the path forks on "same key?"); mixing symbolic and concrete int keys in one table is outside the model
        return 0x5EED

    def __str__(self) -> str:
        return str(self.concretize())

    def __repr__(self) -> str:
        return f"<SymInt {self.e}>"

    def __format__(self, spec: str) -> str:
        return "<symint>"


# --------------------------------------------------------------------------- context


class Failure(dict):
    pass


class Ctx:
    """One exploration (all paths of one harness case), or one concrete replay."""

    def __init__(
        self,
        mode: str = "sym",
        assignment: Optional[Dict[str, Any]] = None,
        choices: Optional[List[Any]] = None,
        max_paths: int = 200000,
        deadline: Optional[float] = None,
        solver_timeout_ms: int = 90000,
    ) -> None:
        assert mode in ("sym", "concrete")
        self.mode = mode
        self.assignment = dict(assignment or {})
        self.fixed_choices = list(choices or [])
        self.max_paths = max_paths
        self.deadline = deadline
        self.solver = z3.Solver()
        self.solver.set("timeout", solver_timeout_ms)
        self.path: List[Dec] = []
        self.pos = 0
        self.depth = 0  # solver levels pushed == prefix of self.path
        self.symbols: Dict[str, Any] = {}
        self.choices: List[Any] = []  # (name, index) of this run
        self.picked: List[Any] = []  # (name, element) human readable
        self.events: List[Any] = []  # harness-level trace of this run
        self.failures: List[Failure] = []
        self.covers: Dict[str, int] = {}
        self.case: Any = None
        self.n_paths = 0
        self.n_pruned = 0
        self.n_queries = 0
        self.n_obligations = 0
        self.n_obl_solver = 0
        self.solver_s = 0.0
        self.max_depth = 0
        self.inconclusive: List[str] = []
        self._fresh = 0
        self._divcache: Dict[Any, Any] = {}
        self.sigf: Any = None
        self._model: Any = None  # a model of the current path condition, if one is known
        self.failure_counts: Dict[str, int] = {}
        self.dump_dir: Optional[str] = None  # second-solver cross check: obligations written as SMT-LIB2
        self.dump_limit = 0
        self.n_dumped = 0
        self.dump_tag = ""
        self.max_failures = 50
        self.sample_paths: List[Any] = []

    # ---- symbol creation ------------------------------------------------------
    def int(self, name: str, lo: Optional[int] = None, hi: Optional[int] = None) -> Any:
        if self.mode == "concrete":
            v = self.assignment.get(name)
            if v is None:
                v = lo if lo is not None else (hi if hi is not None and hi < 0 else 0)
            return int(v)
        v = self.symbols.get(name)
        if v is None:
            v = z3.Int(name)
            self.symbols[name] = v
        if lo is not None:
            self.assume(v >= lo)
        if hi is not None:
            self.assume(v <= hi)
        return SymInt(v)

    def bool(self, name: str) -> Any:
        if self.mode == "concrete":
            return bool(self.assignment.get(name, False))
        v = self.symbols.get(name)
        if v is None:
            v = z3.Bool(name)
            self.symbols[name] = v
        return SymBool(v)

    def fresh(self, prefix: str) -> str:
        self._fresh += 1
        return f"{prefix}#{self._fresh}"

    # ---- decisions ------------------------------------------------------------
    def _check(self, *extra: Any) -> str:
        t0 = time.time()
        self.n_queries += 1
        r = self.solver.check(*extra)
        if r == z3.unknown:
            # one retry (timeouts under machine load): same query, same state
            r = self.solver.check(*extra)
        self.solver_s += time.time() - t0
        if r == z3.unknown:
            raise HarnessError(f"solver returned unknown: {self.solver.reason_unknown()}")
        return str(r)

    def _check_keep(self, e: Any) -> bool:
        """feasibility of e under the path condition; keeps the model as a witness for later branch decisions"""
        r = self._check(e)
        if r == "sat":
            self._model = self.solver.model()
            return True
        return False

    def _level(self, cons: Any) -> None:
        """Account for the decision at self.pos (constraint `cons` or None)."""
        if self.pos >= self.depth:
            self.solver.push()
            if cons is not None:
                self.solver.add(cons)
                if self._model is not None and not z3.is_true(self._model.eval(cons, model_completion=True)):
                    self._model = None
            self.depth += 1
        self.pos += 1
        if self.pos > self.max_depth:
            self.max_depth = self.pos

    def branch(self, e: Any, simplified: bool = False) -> bool:
        if isinstance(e, bool):
            return e
        if not simplified:
            e = z3.simplify(e)
            if z3.is_true(e):
                return True
            if z3.is_false(e):
                return False
        assert self.mode == "sym", "symbolic term in concrete mode"
        tag = e.hash()
        if self.pos < len(self.path):
            d = self.path[self.pos]
            if d.kind != "b" or d.tag != tag:
                raise HarnessError(
                    f"non-deterministic replay at decision {self.pos}: expected {d.kind}/{d.tag}, got b/{tag} ({e})",
                )
            self._level(e if d.val else z3.Not(e))
            return bool(d.val)
        # one of the two sides is often already witnessed by the last model: evaluate before asking the solver
        t = f = None
        m = self._model
        if m is not None:
            v = m.eval(e, model_completion=True)
            if z3.is_true(v):
                t = True
            elif z3.is_false(v):
                f = True
        if t is None:
            t = self._check_keep(e)
        if f is None:
            f = self._check_keep(z3.Not(e))
        if t and f:
            d = Dec("b", 1, 1, tag)
        elif t:
            d = Dec("b", 1, 0, tag)
        elif f:
            d = Dec("b", 0, 0, tag)
        else:
            raise Abort("infeasible path condition")
        self.path.append(d)
        self._level(e if d.val else z3.Not(e))
        return bool(d.val)

    def assume(self, e: Any) -> None:
        """Constrain the rest of the path; prunes the path if infeasible."""
        if isinstance(e, SymBool):
            e = e.e
        if isinstance(e, bool):
            if not e:
                raise Abort("assumption false")
            return
        if self.mode == "concrete":
            raise HarnessError("symbolic assume in concrete mode")
        e = z3.simplify(e)
        if z3.is_true(e):
            return
        tag = ("a", e.hash())
        if self.pos < len(self.path):
            d = self.path[self.pos]
            if d.kind != "a" or d.tag != tag:
                raise HarnessError(f"non-deterministic replay at decision {self.pos} (assume {e})")
            self._level(e)
            return
        if self._check(e) != "sat":
            raise Abort("assumption infeasible")
        self.path.append(Dec("a", 1, 0, tag))
        self._level(e)

    def choose(self, n: Any, name: str = "") -> Any:
        """Fork n ways; returns the chosen index (or element if n is a sequence)."""
        seq: Optional[Sequence[Any]] = None
        if not isinstance(n, int):
            seq = list(n)
            n = len(seq)
        if n <= 0:
            raise HarnessError(f"choose({name}) over empty set")
        if self.mode == "concrete":
            k = len(self.choices)
            v = 0
            if k < len(self.fixed_choices):
                nm, v = self.fixed_choices[k]
                if nm != name:
                    self.inconclusive.append(f"replay choice {k}: expected {nm!r} got {name!r}")
                    v = 0
            v = min(int(v), n - 1)
        else:
            tag = ("c", name, n)
            if self.pos < len(self.path):
                d = self.path[self.pos]
                if d.kind != "c" or d.tag != tag:
                    raise HarnessError(
                        f"non-deterministic replay at decision {self.pos}: expected {d.kind}/{d.tag}, got {tag}",
                    )
            else:
                d = Dec("c", 0, n - 1, tag)
                self.path.append(d)
            self._level(None)
            v = d.val
        self.choices.append((name, v))
        if seq is not None and _plain(seq[v]):
            self.picked.append((name, seq[v]))
        return seq[v] if seq is not None else v

    def flag(self, name: str) -> bool:
        return bool(self.choose(2, name))

    def concretize(self, e: Any) -> int:
        """Fork over the feasible values of an integer term (must be finitely many)."""
        e = z3.simplify(e)
        if z3.is_int_value(e):
            return e.as_long()
        for _ in range(64):
            at = self.pos
            if at < len(self.path):
                v = self.path[at].aux
                if v is None:
                    raise HarnessError("non-deterministic replay in concretize")
            else:
                if self._check() != "sat":
                    raise Abort("infeasible")
                v = self.solver.model().eval(e, model_completion=True).as_long()
            r = self.branch(e == v)
            if at < len(self.path):
                self.path[at].aux = v
            if r:
                return v
        raise HarnessError(f"concretize: more than 64 feasible values for {e}")

    def divmod(self, e: Any, k: int) -> Any:
        """floor division / modulo by a positive constant, linearised with fresh q, r:
        e == k*q + r and 0 <= r < k (keeps every query in linear integer arithmetic)."""
        e = z3.simplify(e)
        if z3.is_int_value(e):
            v = e.as_long()
            return v // k, v % k
        key = (e.hash(), k)
        hit = self._divcache.get(key)
        if hit is not None and hit[0].eq(e):
            return hit[1], hit[2]
        n = len(self._divcache)
        q = z3.Int(f"_q{n}")
        r = z3.Int(f"_r{n}")
        self.assume(z3.And(e == k * q + r, r >= 0, r < k))
        self._divcache[key] = (e, SymInt(q), SymInt(r))
        return SymInt(q), SymInt(r)

    # ---- obligations ----------------------------------------------------------
    def cover(self, label: str) -> None:
        self.covers[label] = self.covers.get(label, 0) + 1

    def event(self, *ev: Any) -> None:
        self.events.append(ev if len(ev) != 1 else ev[0])

    def check(self, cond: Any, label: str, **info: Any) -> bool:
        """Obligation: cond holds on this path for every value of the symbols."""
        self.n_obligations += 1
        if isinstance(cond, SymBool):
            e = z3.simplify(cond.e)
            if z3.is_true(e):
                return True
            self.n_obl_solver += 1
            self.solver.push()
            try:
                self.solver.add(z3.Not(e))
                if self.dump_dir is not None and self.n_dumped < self.dump_limit:
                    self._dump(label)
                r = self._check()
                if r == "unsat":
                    return True
                model = self.solver.model()
                self._fail(label, model, info)
            finally:
                self.solver.pop()
            return False
        if cond:
            return True
        model = None
        if self.mode == "sym":
            if self._check() != "sat":
                return True  # unreachable path
            model = self.solver.model()
        self._fail(label, model, info)
        return False

    def _fail(self, label: str, model: Any, info: Dict[str, Any]) -> None:
        assignment: Dict[str, Any] = {}
        if model is not None:
            for name, v in self.symbols.items():
                val = model.eval(v, model_completion=True)
                assignment[name] = (
                    z3.is_true(val) if z3.is_bool(val) else val.as_long()
                )
        else:
            assignment = dict(self.assignment)
        rec = Failure(label=label, case=self.case, info={k: _show(v) for k, v in info.items()})
        try:
            key = self.sigf(rec) if self.sigf is not None else label
        except Exception:  # noqa: BLE001
            key = label
        self.failure_counts[key] = self.failure_counts.get(key, 0) + 1
        if self.failure_counts[key] == 1 and len(self.failures) < self.max_failures:
            self.failures.append(
                Failure(
                    label=label,
                    case=self.case,
                    assignment=assignment,
                    choices=[list(c) for c in self.choices],
                    picked=[list(c) for c in self.picked],
                    events=[_show(e) for e in self.events[-200:]],
                    info={k: _show(v) for k, v in info.items()},
                ),
            )

    def _dump(self, label: str) -> None:
        import os

        self.n_dumped += 1
        path = os.path.join(self.dump_dir or ".", f"{self.dump_tag}_{self.n_dumped:04d}.smt2")
        with open(path, "w", encoding="utf-8") as fh:
            fh.write(f"; obligation {label}\n(set-logic ALL)\n")
            fh.write(self.solver.sexpr())
            fh.write("\n(check-sat)\n")

    def model_value(self, x: Any, model: Any) -> Any:
        return model.eval(_z(x), model_completion=True)

    # ---- run management -------------------------------------------------------
    def begin(self) -> None:
        self.pos = 0
        self.choices = []
        self.picked = []
        self.events = []
        self._fresh = 0
        self._divcache = {}

    def backtrack(self) -> bool:
        while self.path and self.path[-1].alts <= 0:
            self.path.pop()
        if not self.path:
            while self.depth > 0:
                self.solver.pop()
                self.depth -= 1
            return False
        d = self.path[-1]
        if d.kind == "b":
            d.val = 0 if d.val else 1
        else:
            d.val += 1
        d.alts -= 1
        keep = len(self.path) - 1
        while self.depth > keep:
            self.solver.pop()
            self.depth -= 1
        return True


def _plain(x: Any) -> bool:
    return isinstance(x, (str, int, float, bool, type(None)))


def _show(x: Any) -> Any:
    if isinstance(x, (str, int, float, bool, type(None))):
        return x
    if isinstance(x, (list, tuple)):
        return [_show(i) for i in x]
    if isinstance(x, dict):
        return {str(k): _show(v) for k, v in x.items()}
    if isinstance(x, (SymInt, SymBool)):
        return str(x.e)
    try:
        return repr(x)[:200]
    except BaseException:  # noqa: BLE001 - objects under test may have a broken repr
        return "<%s: repr failed>" % type(x).__name__


def explore(
    harness: Callable[[Ctx, Any], None],
    case: Any,
    max_paths: int = 200000,
    budget_s: Optional[float] = None,
    sigf: Any = None,
    dump_dir: Optional[str] = None,
    dump_limit: int = 0,
    dump_tag: str = "",
) -> Dict[str, Any]:
    """Explore every feasible path of harness(ctx, case).  Returns a plain dict.
    Failures are kept once per signature (sigf), so a recurring known finding does not end the exploration."""
    global _CTX
    c = Ctx("sym", max_paths=max_paths)
    c.case = case
    c.sigf = sigf
    c.dump_dir, c.dump_limit, c.dump_tag = dump_dir, dump_limit, dump_tag
    t0 = time.time()
    prev = _CTX
    _CTX = c
    exhausted = False
    try:
        while True:
            c.begin()
            try:
                harness(c, case)
                c.n_paths += 1
                if len(c.sample_paths) < 3:
                    c.sample_paths.append(
                        {"choices": [list(x) for x in c.choices], "events": [_show(e) for e in c.events[:60]]},
                    )
            except Abort:
                c.n_pruned += 1
            except HarnessError as exc:
                c.inconclusive.append(f"harness error: {exc}")
                break
            except Exception:
                c.inconclusive.append("exception escaped the harness:\n" + traceback.format_exc()[-1500:])
                break
            if len(c.failures) >= c.max_failures:
                c.inconclusive.append("stopped after max_failures distinct failure signatures")
                break
            if not c.backtrack():
                exhausted = True
                break
            if c.n_paths + c.n_pruned >= max_paths:
                c.inconclusive.append(f"path budget {max_paths} exhausted")
                break
            if budget_s is not None and time.time() - t0 > budget_s:
                c.inconclusive.append(f"time budget {budget_s}s exhausted")
                break
    finally:
        _CTX = prev
    return {
        "case": case,
        "paths": c.n_paths,
        "pruned": c.n_pruned,
        "exhausted": exhausted,
        "queries": c.n_queries,
        "obligations": c.n_obligations,
        "obligations_solver": c.n_obl_solver,
        "solver_s": round(c.solver_s, 3),
        "wall_s": round(time.time() - t0, 3),
        "max_depth": c.max_depth,
        "failures": [dict(f) for f in c.failures],
        "failure_counts": dict(c.failure_counts),
        "covers": dict(c.covers),
        "inconclusive": list(c.inconclusive),
        "samples": c.sample_paths,
        "symbols": sorted(c.symbols),
    }


def replay(
    harness: Callable[[Ctx, Any], None],
    case: Any,
    assignment: Dict[str, Any],
    choices: List[Any],
) -> Dict[str, Any]:
    """Run the harness once with concrete values; returns failures observed."""
    global _CTX
    c = Ctx("concrete", assignment=assignment, choices=[tuple(x) for x in choices])
    c.case = case
    prev = _CTX
    _CTX = c
    err = None
    try:
        c.begin()
        try:
            harness(c, case)
        except Abort:
            err = "assumption violated in concrete replay"
        except Exception:
            err = traceback.format_exc()[-1500:]
    finally:
        _CTX = prev
    return {
        "failures": [dict(f) for f in c.failures],
        "events": [_show(e) for e in c.events[-200:]],
        "error": err,
        "inconclusive": c.inconclusive,
    }
