import argparse
import os
import sys


def main() -> int:
    ap = argparse.ArgumentParser(prog="vt")
    sub = ap.add_subparsers(dest="cmd", required=True)
    c = sub.add_parser("check")
    c.add_argument("property")
    c.add_argument("--tier", default=os.environ.get("VERIF_TIER", "quick"), choices=["quick", "thorough"])
    c.add_argument("--jobs", type=int, default=None)
    r = sub.add_parser("replay")
    r.add_argument("path")
    a = ap.parse_args()
    from vt import run

    if a.cmd == "check":
        seed = int(os.environ.get("VERIF_SEED", "0") or 0)
        return run.run_property(f"vt.props.{a.property}", a.tier, seed, a.jobs)
    return run.replay_file(a.path)


if __name__ == "__main__":
    sys.exit(main())
