"""vt -- solver-based checking of taskiq (see /verif/DESIGN.md)."""
