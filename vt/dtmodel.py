"""vt.dtmodel -- integer (microsecond) model of datetime / timedelta / pytz / pycron.is_now.

A datetime is (us, off, aware):
  aware : `us` is the instant in microseconds since the epoch (UTC), `off` the utcoffset in us
  naive : `us` is the wall clock reading in microseconds, `off` is 0 and ignored
All fields may be Python ints or SymInt; every operation is integer arithmetic with the
floor semantics of CPython's normalisation, so the same classes run on plain ints (that is
how the model is validated against the real `datetime`, see `validate`).

Uninterpreted (third-party) parts:
  ZoneOff(zone, utc_us)   utcoffset pytz gives zone at a UTC instant  (astimezone / fromutc)
  ZoneLoc(zone, wall_us)  utcoffset pytz gives zone for a local reading (localize)
  Match(expr, minute)     pycron.is_now(expr, dt) with minute = floor(wall_us / 60e6)
"""
from __future__ import annotations

from typing import Any, Callable, List, Optional, Tuple

import datetime as _real_dt

import z3

from vt import sym
from vt.sym import SymBool, SymInt, mkbool, mkint

US = 1_000_000
MIN = 60 * US
HOUR = 3600 * US
DAY = 86400 * US

_zone_off = z3.Function("ZoneOff", z3.IntSort(), z3.IntSort(), z3.IntSort())
_zone_loc = z3.Function("ZoneLoc", z3.IntSort(), z3.IntSort(), z3.IntSort())
_match = z3.Function("Match", z3.IntSort(), z3.IntSort(), z3.BoolSort())


def _zz(x: Any) -> Any:
    return x.e if isinstance(x, SymInt) else z3.IntVal(int(x))


def _isint(x: Any) -> bool:
    return isinstance(x, SymInt) or (isinstance(x, int) and not isinstance(x, bool))


def _td(o: Any) -> Any:
    """A real `datetime.timedelta` (a module- or class-level constant of the code under analysis, built
    before the names were swapped) is the model value with the same number of microseconds."""
    if isinstance(o, _real_dt.timedelta):
        return TD(_us=(o.days * 86400 + o.seconds) * US + o.microseconds)
    return o


class Seconds:
    """Result of timedelta.total_seconds(): the rational us / 10**6 (a float in CPython).

    int() truncates toward zero.  The float rounding of CPython is covered by the lemma
    `fp_lemma` (QF_FP) for |us| <= FP_RANGE; every use of int() records that obligation."""

    __vt_type__ = float
    FP_RANGE = 2**27

    def __init__(self, us: Any) -> None:
        self.us = us

    def __vt_int__(self) -> Any:
        us = self.us
        c = sym.active()
        if c is not None and isinstance(us, SymInt):
            c.check(mkbool(z3.And(us.e >= -self.FP_RANGE, us.e <= self.FP_RANGE)), "fp_lemma_range")
        if isinstance(us, SymInt):
            if us >= 0:
                return us // US
            return -((-us) // US)
        return us // US if us >= 0 else -((-us) // US)

    def _range(self) -> None:
        c = sym.active()
        if c is not None and isinstance(self.us, SymInt):
            c.check(mkbool(z3.And(self.us.e >= -self.FP_RANGE, self.us.e <= self.FP_RANGE)), "fp_lemma_range")

    def __trunc__(self) -> Any:
        return self.__vt_int__()

    def __floor__(self) -> Any:
        self._range()
        return self.us // US

    def __ceil__(self) -> Any:
        self._range()
        return -((-self.us) // US)

    def __round__(self, nd: Any = None) -> Any:
        raise sym.HarnessError("round(total_seconds()) is not modelled")

    def __float__(self) -> float:
        if isinstance(self.us, SymInt):
            raise sym.HarnessError("float(total_seconds()) of a symbolic timedelta")
        return self.us / US

    def __format__(self, spec: str) -> str:
        return "<seconds>"

    def _cmp(self, o: Any, op: Callable[[Any, Any], Any]) -> Any:
        if isinstance(o, Seconds):
            return op(self.us, o.us)
        if _isint(o):
            return op(self.us, o * US)
        return NotImplemented

    def __lt__(self, o: Any) -> Any:
        return self._cmp(o, lambda a, b: a < b)

    def __le__(self, o: Any) -> Any:
        return self._cmp(o, lambda a, b: a <= b)

    def __gt__(self, o: Any) -> Any:
        return self._cmp(o, lambda a, b: a > b)

    def __ge__(self, o: Any) -> Any:
        return self._cmp(o, lambda a, b: a >= b)


class TD:
    """timedelta"""

    __vt_type__ = None  # set below (its own class)

    def __init__(
        self, days: Any = 0, seconds: Any = 0, microseconds: Any = 0, milliseconds: Any = 0,
        minutes: Any = 0, hours: Any = 0, weeks: Any = 0, *, _us: Any = None,
    ) -> None:
        if _us is not None:
            self.us = _us
            return
        for v in (days, seconds, microseconds, milliseconds, minutes, hours, weeks):
            if not _isint(v):
                raise sym.HarnessError(f"timedelta model: non-integer component {v!r}")
        self.us = (
            days * DAY + seconds * US + microseconds + milliseconds * 1000 + minutes * MIN + hours * HOUR
            + weeks * 7 * DAY
        )

    @property
    def microseconds(self) -> Any:
        return self.us % US

    @property
    def seconds(self) -> Any:
        return (self.us // US) % 86400

    @property
    def days(self) -> Any:
        return self.us // DAY

    def total_seconds(self) -> Seconds:
        return Seconds(self.us)

    def __bool__(self) -> bool:
        return bool(self.us != 0)

    def __add__(self, o: Any) -> Any:
        o = _td(o)
        if isinstance(o, TD):
            return TD(_us=self.us + o.us)
        if isinstance(o, DT):
            return o + self
        return NotImplemented

    __radd__ = __add__

    def __sub__(self, o: Any) -> Any:
        o = _td(o)
        return TD(_us=self.us - o.us) if isinstance(o, TD) else NotImplemented

    def __rsub__(self, o: Any) -> Any:
        o = _td(o)
        return TD(_us=o.us - self.us) if isinstance(o, TD) else NotImplemented

    def __neg__(self) -> "TD":
        return TD(_us=-self.us)

    def __abs__(self) -> "TD":
        return TD(_us=abs(self.us))

    def __mul__(self, k: Any) -> Any:
        return TD(_us=self.us * k) if _isint(k) else NotImplemented

    __rmul__ = __mul__

    def __floordiv__(self, k: Any) -> Any:
        k = _td(k)
        if isinstance(k, int) and k > 0:
            return TD(_us=self.us // k)
        if isinstance(k, TD) and isinstance(k.us, int) and k.us > 0:
            return self.us // k.us
        return NotImplemented

    def __truediv__(self, k: Any) -> Any:
        k = _td(k)
        if isinstance(k, TD) and isinstance(k.us, int) and k.us == US:
            return Seconds(self.us)  # td / timedelta(seconds=1) is total_seconds()
        raise sym.HarnessError("timedelta model: true division other than by one second is a float computation")

    def __mod__(self, k: Any) -> Any:
        k = _td(k)
        if isinstance(k, TD) and isinstance(k.us, int) and k.us > 0:
            return TD(_us=self.us % k.us)
        return NotImplemented

    def __divmod__(self, k: Any) -> Any:
        k = _td(k)
        if isinstance(k, TD) and isinstance(k.us, int) and k.us > 0:
            return self.us // k.us, TD(_us=self.us % k.us)
        return NotImplemented

    def _cmp(self, o: Any, op: Callable[[Any, Any], Any]) -> Any:
        o = _td(o)
        return op(self.us, o.us) if isinstance(o, TD) else NotImplemented

    def __eq__(self, o: Any) -> Any:  # type: ignore[override]
        o = _td(o)
        return (self.us == o.us) if isinstance(o, TD) else False

    def __ne__(self, o: Any) -> Any:  # type: ignore[override]
        o = _td(o)
        return (self.us != o.us) if isinstance(o, TD) else True

    def __lt__(self, o: Any) -> Any:
        return self._cmp(o, lambda a, b: a < b)

    def __le__(self, o: Any) -> Any:
        return self._cmp(o, lambda a, b: a <= b)

    def __gt__(self, o: Any) -> Any:
        return self._cmp(o, lambda a, b: a > b)

    def __ge__(self, o: Any) -> Any:
        return self._cmp(o, lambda a, b: a >= b)

    def __hash__(self) -> int:
        return hash("TD") if isinstance(self.us, SymInt) else hash(("TD", int(self.us)))

    def __repr__(self) -> str:
        return f"TD(us={self.us!r})"

    def __format__(self, spec: str) -> str:
        return "<td>"


class TZ:
    """tzinfo: fixed offset (fixed is not None) or a named pytz zone (uninterpreted offset)."""

    def __init__(self, name: str, fixed: Any = None, zone_id: int = 0) -> None:
        self.zone = name
        self.fixed = fixed
        self.zone_id = zone_id

    def offset_at_utc(self, utc_us: Any) -> Any:
        if self.fixed is not None:
            return self.fixed
        if isinstance(utc_us, SymInt) or sym.active() is not None and sym.active().mode == "sym":
            return mkint(_zone_off(z3.IntVal(self.zone_id), _zz(utc_us)))
        raise sym.HarnessError("named zone in the integer model needs symbolic mode")

    def offset_at_local(self, wall_us: Any) -> Any:
        if self.fixed is not None:
            return self.fixed
        return mkint(_zone_loc(z3.IntVal(self.zone_id), _zz(wall_us)))

    def localize(self, dt: "DT", is_dst: Any = False) -> "DT":
        if dt.aware:
            raise ValueError("Not naive datetime (tzinfo is already set)")
        off = self.offset_at_local(dt.us)
        return DT(dt.us - off, off, True, self)

    def normalize(self, dt: "DT") -> "DT":
        return dt.astimezone(self)

    def utcoffset(self, dt: Any) -> TD:
        if dt is None:
            return TD(_us=self.fixed if self.fixed is not None else 0)
        return TD(_us=self.offset_at_local(dt.wall()))

    def __repr__(self) -> str:
        return f"TZ({self.zone})"

    def __eq__(self, o: Any) -> bool:  # type: ignore[override]
        return isinstance(o, TZ) and o.zone == self.zone and o.fixed is self.fixed is None or (
            isinstance(o, TZ) and self.fixed is not None and o.fixed is not None and bool(o.fixed == self.fixed)
        )

    def __hash__(self) -> int:
        return hash(self.zone)


UTC = TZ("UTC", 0)


class Clock:
    """Source of `now`: successive reads are arbitrary non-decreasing instants."""

    def __init__(self, first: Any, local_off: Any = 0, monotone: bool = True) -> None:
        self.reads: List[Any] = []
        self.first = first
        self.local_off = local_off

    def read(self) -> Any:
        c = sym.active()
        if not self.reads:
            v = self.first
        elif c is not None and c.mode == "sym":
            v = c.int(f"now{len(self.reads)}")
            c.assume(v >= self.reads[-1])
        else:
            v = self.reads[-1]
        self.reads.append(v)
        return v


CLOCK: Optional[Clock] = None


class DT:
    """datetime"""

    def __init__(self, us: Any, off: Any = 0, aware: bool = False, tz: Optional[TZ] = None) -> None:
        self.us = us
        self.off = off if aware else 0
        self.aware = aware
        self.tz = tz if aware else None

    # ---- class level API used by taskiq
    @classmethod
    def now(cls, tz: Any = None) -> "DT":
        assert CLOCK is not None
        u = CLOCK.read()
        if tz is None:
            return cls(u + CLOCK.local_off, 0, False)
        return cls(u, tz.offset_at_utc(u), True, tz)

    @classmethod
    def utcnow(cls) -> "DT":
        assert CLOCK is not None
        return cls(CLOCK.read(), 0, False)

    # ---- fields
    def wall(self) -> Any:
        return self.us + self.off if self.aware else self.us

    @property
    def tzinfo(self) -> Any:
        return self.tz if self.aware else None

    def utcoffset(self) -> Any:
        return TD(_us=self.off) if self.aware else None

    @property
    def microsecond(self) -> Any:
        return self.wall() % US

    @property
    def second(self) -> Any:
        return (self.wall() // US) % 60

    @property
    def minute(self) -> Any:
        return (self.wall() // MIN) % 60

    @property
    def hour(self) -> Any:
        return (self.wall() // HOUR) % 24

    def replace(self, **kw: Any) -> "DT":
        w = self.wall()
        hh = kw.pop("hour", None)
        mm = kw.pop("minute", None)
        ss = kw.pop("second", None)
        us = kw.pop("microsecond", None)
        has_tz = "tzinfo" in kw
        tz = kw.pop("tzinfo", None)
        kw.pop("fold", None)
        if kw:
            raise sym.HarnessError(f"datetime model: replace({sorted(kw)}) is not modelled")
        for name, v, hi in (("hour", hh, 24), ("minute", mm, 60), ("second", ss, 60), ("microsecond", us, US)):
            if v is not None:
                if not _isint(v):
                    raise TypeError(f"{name} must be int")
                ok = (v >= 0) & (v < hi) if isinstance(v, SymInt) else (0 <= v < hi)
                if not ok:
                    raise ValueError(f"{name} must be in 0..{hi - 1}")
        nw = w
        if us is not None:
            nw = nw - (w % US) + us
        if ss is not None:
            nw = nw - ((w % MIN) - (w % US)) + ss * US
        if mm is not None:
            nw = nw - ((w % HOUR) - (w % MIN)) + mm * MIN
        if hh is not None:
            nw = nw - ((w % DAY) - (w % HOUR)) + hh * HOUR
        if has_tz:
            if tz is None:
                return DT(nw, 0, False)
            if tz.fixed is None:
                off = tz.offset_at_local(nw)  # pytz zone attached by replace(): LMT-like, modelled as local lookup
            else:
                off = tz.fixed
            return DT(nw - off, off, True, tz)
        if self.aware:
            return DT(nw - self.off, self.off, True, self.tz)
        return DT(nw, 0, False)

    def astimezone(self, tz: Any = None) -> "DT":
        if tz is None:
            raise sym.HarnessError("datetime model: astimezone() without zone is not modelled")
        if not self.aware:
            assert CLOCK is not None
            utc = self.us - CLOCK.local_off
        else:
            utc = self.us
        return DT(utc, tz.offset_at_utc(utc), True, tz)

    def timestamp(self) -> Any:
        raise sym.HarnessError("datetime model: timestamp() is not modelled")

    def date(self) -> "DateM":
        return DateM(self.toordinal())

    def toordinal(self) -> Any:
        return self.wall() // DAY + 719163  # proleptic Gregorian ordinal of the wall-clock date (1970-01-01 is 719163)

    def weekday(self) -> Any:
        return (self.wall() // DAY + 3) % 7  # 1970-01-01 was a Thursday

    def isoweekday(self) -> Any:
        return self.weekday() + 1

    # ---- arithmetic / comparison
    def __add__(self, o: Any) -> Any:
        o = _td(o)
        if isinstance(o, TD):
            return DT(self.us + o.us, self.off, self.aware, self.tz)
        return NotImplemented

    __radd__ = __add__

    def __sub__(self, o: Any) -> Any:
        o = _td(o)
        if isinstance(o, TD):
            return DT(self.us - o.us, self.off, self.aware, self.tz)
        if isinstance(o, DT):
            if self.aware != o.aware:
                raise TypeError("can't subtract offset-naive and offset-aware datetimes")
            return TD(_us=self.us - o.us)
        return NotImplemented

    def _cmp(self, o: Any, op: Callable[[Any, Any], Any]) -> Any:
        if not isinstance(o, DT):
            return NotImplemented
        if self.aware != o.aware:
            raise TypeError("can't compare offset-naive and offset-aware datetimes")
        return op(self.us, o.us)

    def __eq__(self, o: Any) -> Any:  # type: ignore[override]
        if not isinstance(o, DT):
            return False
        if self.aware != o.aware:
            return False
        return self.us == o.us

    def __ne__(self, o: Any) -> Any:  # type: ignore[override]
        r = self.__eq__(o)
        return ~r if isinstance(r, SymBool) else (not r)

    def __lt__(self, o: Any) -> Any:
        return self._cmp(o, lambda a, b: a < b)

    def __le__(self, o: Any) -> Any:
        return self._cmp(o, lambda a, b: a <= b)

    def __gt__(self, o: Any) -> Any:
        return self._cmp(o, lambda a, b: a > b)

    def __ge__(self, o: Any) -> Any:
        return self._cmp(o, lambda a, b: a >= b)

    def __hash__(self) -> int:
        # constant for symbolic instants: dict / cache look-ups then decide by `==`, which forks symbolically
        return hash(("DT", self.aware)) if isinstance(self.us, SymInt) else hash(("DT", int(self.us), self.aware))

    def __repr__(self) -> str:
        return f"DT(us={self.us!r}, off={self.off!r}, aware={self.aware})"

    def __format__(self, spec: str) -> str:
        return "<dt>"


class DateM:
    """datetime.date as its proleptic ordinal (possibly symbolic); usable as a dictionary key"""

    def __init__(self, ordinal: Any) -> None:
        self.ordinal = ordinal

    def toordinal(self) -> Any:
        return self.ordinal

    def __eq__(self, o: Any) -> Any:  # type: ignore[override]
        return (self.ordinal == o.ordinal) if isinstance(o, DateM) else False

    def __ne__(self, o: Any) -> Any:  # type: ignore[override]
        r = self.__eq__(o)
        return ~r if isinstance(r, SymBool) else (not r)

    def __lt__(self, o: Any) -> Any:
        return self.ordinal < o.ordinal

    def __le__(self, o: Any) -> Any:
        return self.ordinal <= o.ordinal

    def __hash__(self) -> int:
        return 0x5EED if isinstance(self.ordinal, SymInt) else hash(self.ordinal)

    def __repr__(self) -> str:
        return f"DateM({self.ordinal!r})"


TD.__vt_type__ = TD  # type: ignore[assignment]


class PytzModel:
    UTC = UTC
    utc = UTC

    def __init__(self) -> None:
        self.zones: dict = {}

    def FixedOffset(self, minutes: Any, *a: Any) -> TZ:  # noqa: N802 - pytz's name
        return TZ("fixed-offset", minutes * MIN)

    def timezone(self, name: Any) -> TZ:
        if name in ("UTC", "utc"):
            return UTC
        if name not in self.zones:
            self.zones[name] = TZ(str(name), None, len(self.zones) + 1)
        return self.zones[name]


class IsNowModel:
    """pycron.is_now: uninterpreted Match(expr, wall minute); records its calls."""

    def __init__(self) -> None:
        self.calls: List[Tuple[Any, DT]] = []
        self.exprs: dict = {}

    def expr_id(self, expr: Any) -> int:
        return self.exprs.setdefault(expr, len(self.exprs) + 1)

    def match(self, expr: Any, minute: Any) -> Any:
        return mkbool(_match(z3.IntVal(self.expr_id(expr)), _zz(minute)))

    def __call__(self, expr: Any, dt: Any = None) -> Any:
        if dt is None:
            dt = DT.now()
        self.calls.append((expr, dt))
        return self.match(expr, dt.wall() // MIN)


def vt_int_dt(x: Any = 0, *rest: Any) -> Any:
    """`int` for namespaces that use the datetime model."""
    from vt.models import vt_int

    f = getattr(type(x), "__vt_int__", None)
    if f is not None:
        return f(x)
    return vt_int(x, *rest)


# --------------------------------------------------------------------------- validation


def validate(n: int, seed: int) -> Tuple[int, List[str]]:
    """Differential test of the integer model (on plain ints) against the real datetime."""
    import datetime as real
    import random

    rng = random.Random(seed)
    epoch = real.datetime(1970, 1, 1)
    bad: List[str] = []
    done = 0

    def to_real(us: int, off: Optional[int]) -> Any:
        if off is None:
            return epoch + real.timedelta(microseconds=us)
        tz = real.timezone(real.timedelta(microseconds=off))
        return (epoch + real.timedelta(microseconds=us)).replace(tzinfo=real.timezone.utc).astimezone(tz)

    def from_real(d: Any) -> Tuple[int, Optional[int]]:
        if d.tzinfo is None:
            return (d - epoch) // real.timedelta(microseconds=1), None
        off = d.utcoffset() // real.timedelta(microseconds=1)
        return (d - epoch.replace(tzinfo=real.timezone.utc)) // real.timedelta(microseconds=1), off

    for _ in range(n):
        us = rng.randrange(-10**15, 4 * 10**15)
        if rng.random() < 0.3:
            us = us - us % MIN + rng.choice([0, 1, US - 1, US, 59 * US, 59 * US + 999_999, 1_000_001])
        off = rng.choice([None, 0, 3600 * US, -5 * HOUR, 5 * HOUR + 30 * MIN, 45 * MIN, -(12 * HOUR)])
        d = to_real(us, off)
        m = DT(us, off or 0, off is not None, TZ("f", off) if off is not None else None)
        tdus = rng.choice([rng.randrange(-3 * DAY, 3 * DAY), rng.randrange(-2 * US, 62 * US), 0, US, -1, 1])
        td_r = real.timedelta(microseconds=tdus)
        td_m = TD(_us=tdus)
        checks = [
            ("td.microseconds", td_r.microseconds, td_m.microseconds),
            ("td.seconds", td_r.seconds, td_m.seconds),
            ("td.days", td_r.days, td_m.days),
            ("int(total_seconds)", int(td_r.total_seconds()), td_m.total_seconds().__vt_int__()),
            ("add", from_real(d + td_r), ((m + td_m).us, (m + td_m).off if off is not None else None)),
            ("second", d.second, m.second), ("minute", d.minute, m.minute), ("hour", d.hour, m.hour),
            ("microsecond", d.microsecond, m.microsecond),
        ]
        s, u = rng.randrange(60), rng.randrange(US)
        r1, m1 = d.replace(second=s, microsecond=u), m.replace(second=s, microsecond=u)
        checks.append(("replace(second,microsecond)", from_real(r1), (m1.us, m1.off if off is not None else None)))
        r2, m2 = d.replace(second=s), m.replace(second=s)
        checks.append(("replace(second)", from_real(r2), (m2.us, m2.off if off is not None else None)))
        mi = rng.randrange(60)
        r3, m3 = d.replace(minute=mi, second=0, microsecond=0), m.replace(minute=mi, second=0, microsecond=0)
        checks.append(("replace(minute..)", from_real(r3), (m3.us, m3.off if off is not None else None)))
        us2 = us + rng.choice([0, 1, -1, rng.randrange(-DAY, DAY)])
        d2 = to_real(us2, off)
        mm2 = DT(us2, off or 0, off is not None)
        checks += [
            ("le", d <= d2, m <= mm2), ("lt", d < d2, m < mm2), ("eq", d == d2, m == mm2),
            ("sub", (d - d2) // real.timedelta(microseconds=1), (m - mm2).us),
        ]
        one = real.timedelta(seconds=1)
        k_r = real.timedelta(microseconds=rng.choice([1, 1000, US, MIN, 7 * US + 3]))
        checks += [
            ("add real td", from_real(d + td_r), ((m + td_r).us, (m + td_r).off if off is not None else None)),
            ("sub real td", from_real(d - td_r), ((m - td_r).us, (m - td_r).off if off is not None else None)),
            ("td + real td", (td_r + k_r) // real.timedelta(microseconds=1), (td_m + k_r).us),
            ("real td - td", (k_r - td_r) // real.timedelta(microseconds=1), (k_r - td_m).us),
            ("td // real td", td_r // k_r, td_m // k_r),
            ("td % real td", (td_r % k_r) // real.timedelta(microseconds=1), (td_m % k_r).us),
            ("-(-td // 1s)", -(-td_r // one), -(-td_m // one)),
            ("td <= real td", td_r <= k_r, td_m <= k_r), ("td == real td", td_r == k_r, td_m == k_r),
            ("int(td / 1s)", int(td_r / one), (td_m / one).__vt_int__()),
        ]
        for name, a, b in checks:
            done += 1
            if a != b:
                bad.append(f"{name}: real={a!r} model={b!r} us={us} off={off} td={tdus}")
    return done, bad[:10]


def fp_lemma_smt2(rng: int) -> str:
    return (
        "(set-logic QF_BVFP)\n(declare-const k (_ BitVec 64))\n"
        "(assert (bvsle #x0000000000000000 k))\n"
        f"(assert (bvsle k #x{rng:016x}))\n"
        "(assert (not (= ((_ fp.to_sbv 64) RTZ (fp.div RNE ((_ to_fp 11 53) RNE k) "
        "((_ to_fp 11 53) RNE 1000000.0))) (bvudiv k #x00000000000F4240))))\n(check-sat)\n"
    )


def fp_lemma(solvers: Any = ("cvc5",), timeout_s: int = 300) -> list:
    """QF_BVFP lemma: trunc(RNE(k / 10**6)) == k div 10**6 for 0 <= k <= FP_RANGE.

    CPython's timedelta.total_seconds() is `int_us / 10**6` (correctly rounded true division of
    ints) and int() truncates toward zero; the sign-symmetric case follows because negation is exact."""
    from vt.smt import run_smt2

    out = []
    for sv in solvers:
        r = run_smt2(fp_lemma_smt2(Seconds.FP_RANGE), sv, timeout_s)
        out.append({"name": f"fp_lemma[{sv}]: trunc(RNE(k/1e6)) == k div 1e6 for 0<=k<=2^27 us", "expected": "unsat", **r})
    return out
