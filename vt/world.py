"""vt.world -- load /repo modules for symbolic execution.

`World.clone(modname, pre, post)` re-executes the *source text of the module as it is on
disk* in a fresh module object.  Names in `pre` are put into the namespace before the
source runs (they shadow builtins such as `int`, `str`, `type`, `isinstance`, so that
module-level tables like `labels._LABEL_PARSERS` capture the models, too); names in
`post` replace what the module imported (`datetime`, `asyncio`, `Process`, ...).
Objects imported from modules that were cloned earlier in the same world are re-linked
to their clones.  Nothing is translated: the real byte code of the real functions runs.

`Coverage` records which functions of /repo/taskiq were executed (sys.monitoring) and
hashes their source segments for the evidence file.
"""
from __future__ import annotations

import ast
import hashlib
import importlib
import itertools
import os
import sys
import types
from typing import Any, Dict, Optional, Set, Tuple

# the tree under analysis; the registered commands always use /repo -- the override exists only so that
# scripts/ (seeded changes, benign refactors) can run the same checks on scratch worktrees in parallel
REPO = os.path.realpath(os.environ.get("VT_REPO", "/repo"))
_ids = itertools.count(1)


class World:
    def __init__(self) -> None:
        self.id = next(_ids)
        self.clones: Dict[str, types.ModuleType] = {}

    def clone(
        self,
        modname: str,
        pre: Optional[Dict[str, Any]] = None,
        post: Optional[Dict[str, Any]] = None,
    ) -> types.ModuleType:
        real = importlib.import_module(modname)
        path = real.__file__
        assert path and path.startswith(REPO + "/"), f"{modname} is not loaded from {REPO}: {path}"
        with open(path, encoding="utf-8") as fh:
            src = fh.read()
        name = f"vtw{self.id}.{modname}"
        mod = types.ModuleType(name)
        mod.__file__ = path
        mod.__package__ = real.__package__
        sys.modules[name] = mod
        ns = mod.__dict__
        ns.update(pre or {})
        exec(compile(src, path, "exec"), ns)  # noqa: S102 - this is the point
        for key, val in list(ns.items()):
            vm = getattr(val, "__module__", None)
            vn = getattr(val, "__name__", None)
            if vm in self.clones and isinstance(vn, str):
                realmod = sys.modules.get(vm)
                if realmod is not None and getattr(realmod, vn, None) is val and hasattr(self.clones[vm], vn):
                    ns[key] = getattr(self.clones[vm], vn)
        # module objects replaced by models: also re-point functions of those modules that the
        # source captured in module-level tables (e.g. labels._LABEL_PARSERS -> base64.b64decode)
        swapped = {}
        for key, model in (post or {}).items():
            old = ns.get(key)
            if isinstance(old, types.ModuleType):
                swapped[old.__name__] = model
        ns.update(post or {})
        if swapped:
            for val in list(ns.values()):
                if type(val) is dict:
                    for k2, v2 in list(val.items()):
                        m2 = getattr(v2, "__module__", None)
                        n2 = getattr(v2, "__name__", None)
                        if m2 in swapped and isinstance(n2, str) and getattr(sys.modules.get(m2), n2, None) is v2:
                            val[k2] = getattr(swapped[m2], n2)
        self.clones[modname] = mod
        return mod

    def dispose(self) -> None:
        for modname in list(self.clones):
            sys.modules.pop(f"vtw{self.id}.{modname}", None)
        self.clones.clear()


class Coverage:
    """Set of (file, qualname, firstlineno) of /repo/taskiq code objects that ran."""

    TOOL = 4

    def __init__(self) -> None:
        self.seen: Set[Tuple[str, str, int]] = set()
        self.on = False

    def start(self) -> None:
        mon = sys.monitoring
        try:
            mon.use_tool_id(self.TOOL, "vt-cov")
        except ValueError:
            return
        prefix = REPO + "/taskiq/"

        def cb(code: types.CodeType, _off: int) -> Any:
            if code.co_filename.startswith(prefix):
                self.seen.add((code.co_filename, code.co_qualname, code.co_firstlineno))
            return mon.DISABLE

        mon.register_callback(self.TOOL, mon.events.PY_START, cb)
        mon.set_events(self.TOOL, mon.events.PY_START)
        self.on = True

    def stop(self) -> None:
        if self.on:
            mon = sys.monitoring
            mon.set_events(self.TOOL, 0)
            mon.register_callback(self.TOOL, mon.events.PY_START, None)
            mon.free_tool_id(self.TOOL)
            self.on = False


def describe_functions(seen: Set[Tuple[str, str, int]]) -> list:
    """[{file, qualname, line, sha256}] for the executed functions (module bodies skipped)."""
    out = []
    cache: Dict[str, Tuple[str, Dict[int, ast.AST]]] = {}
    for file, qual, line in sorted(seen):
        if qual == "<module>" or "<lambda>" in qual or "<listcomp>" in qual or "<genexpr>" in qual:
            continue
        if file not in cache:
            try:
                with open(file, encoding="utf-8") as fh:
                    src = fh.read()
                tree = ast.parse(src)
            except (OSError, SyntaxError):
                continue
            idx: Dict[int, ast.AST] = {}
            for node in ast.walk(tree):
                if isinstance(node, (ast.FunctionDef, ast.AsyncFunctionDef)):
                    first = min([node.lineno] + [d.lineno for d in node.decorator_list])
                    idx[first] = node
                    idx.setdefault(node.lineno, node)
            cache[file] = (src, idx)
        src, idx = cache[file]
        node = idx.get(line)
        if node is None:
            continue
        seg = ast.get_source_segment(src, node) or ""
        out.append(
            {
                "file": file[len(REPO) + 1 :],
                "qualname": qual,
                "line": line,
                "sha256": hashlib.sha256(seg.encode()).hexdigest()[:16],
            },
        )
    return out
