"""vt.models -- models of the builtins that insist on concrete operands.

They are injected into cloned module namespaces (see vt.world) under the builtin's own
name.  On ordinary Python values they call the real builtin, so a cloned module behaves
exactly like the original one when no proxy reaches it.

Coder axioms encoded here (the trusted base for C09/C11):
  int(str(n)) == n          for every int n          (StrOf(n) -> n)
  float(str(x)) == x        for every float x        (StrOf(x) -> x, x opaque)
  b64decode(b64encode(b)) == b for every bytes b     (B64Of(b) -> b)
  str(s) is s               for every str s
  str(True) == "True", str(False) == "False"
"""
from __future__ import annotations

import base64 as _real_base64
import builtins
from typing import Any

from vt.sym import SymBool, SymInt, ctx, mkbool, mkint

_PROXIES: tuple = ()  # filled below


class OpaqueFloat:
    """An arbitrary float value the code may only pass around or render with str()."""

    __vt_type__ = float

    def __init__(self, name: str) -> None:
        self.name = name

    def __eq__(self, o: Any) -> Any:  # type: ignore[override]
        return o is self

    def __hash__(self) -> int:
        return id(self)

    def __repr__(self) -> str:
        return f"<float {self.name}>"

    def concrete(self) -> float:
        return {"f0": 1.5, "f1": -0.25}.get(self.name, 2.75)


class FloatOfInt:
    """float(n) for a symbolic int n (also float(str(n))): only int() and str() of it are modelled.
    int(float(n)) is exact IEEE-754 double rounding for |n| < 2**54 (n itself up to 2**53, the nearest even
    multiple of 2 above) and an unconstrained integer beyond -- a sound over-approximation."""

    __vt_type__ = float
    _n = 0

    def __init__(self, n: Any) -> None:
        self.n = n

    def __repr__(self) -> str:
        return f"<float of int {self.n!r}>"

    def to_int(self, force_model: bool = False) -> Any:
        n = self.n
        if not isinstance(n, SymInt) and not force_model:
            return builtins.int(builtins.float(n))
        if -(2**53) <= n <= 2**53:
            return n
        if -(2**54) < n < 2**54:
            if n % 2 == 0:
                return n
            # a tie between the two neighbouring doubles: round half to even mantissa, i.e. to the multiple of 4
            return n + 1 if (n + 1) % 4 == 0 else n - 1
        if not isinstance(n, SymInt):
            return None
        from vt import sym as _sym

        FloatOfInt._n += 1
        return _sym.ctx().int(f"int_of_float{FloatOfInt._n}")


class StrOf:
    """The text produced by str(v) for a symbolic int or opaque float v."""

    __vt_type__ = str

    def __init__(self, inner: Any) -> None:
        self.inner = inner

    def lower(self) -> "StrOf":
        return self  # digits, sign, '.', 'e', 'inf', 'nan': str(v).lower() parses to the same value

    def __eq__(self, o: Any) -> Any:  # type: ignore[override]
        if isinstance(o, StrOf):
            a, b = self.inner, o.inner
            if isinstance(a, (SymInt, int)) and isinstance(b, (SymInt, int)):
                return a == b
            return a is b
        if isinstance(o, str):
            if isinstance(self.inner, (SymInt, int)):
                try:
                    k = builtins.int(o)
                except ValueError:
                    return False
                if builtins.str(k) != o:
                    return False
                return self.inner == k
            return False
        return False

    def __ne__(self, o: Any) -> Any:  # type: ignore[override]
        r = self.__eq__(o)
        if isinstance(r, SymBool):
            return ~r
        return not r

    def __hash__(self) -> int:
        return hash(("StrOf", id(self.inner)))

    def __repr__(self) -> str:
        return f"<str of {self.inner!r}>"

    def __format__(self, spec: str) -> str:
        return "<strof>"


class B64Of:
    """The text base64.b64encode(b).decode() for a bytes value b."""

    __vt_type__ = str

    def __init__(self, inner: bytes) -> None:
        self.inner = inner

    def __eq__(self, o: Any) -> Any:  # type: ignore[override]
        return isinstance(o, B64Of) and o.inner == self.inner

    def __hash__(self) -> int:
        return hash(("B64Of", self.inner))

    def __repr__(self) -> str:
        return f"<b64 of {self.inner!r}>"


class _B64Bytes:
    def __init__(self, inner: bytes) -> None:
        self.inner = inner

    def decode(self, *a: Any) -> B64Of:
        return B64Of(self.inner)


class OpaqueBytes(bytes):
    """A bytes value standing for 'any bytes'; real bytes underneath for concrete use."""


_PROXIES = (SymInt, SymBool, StrOf, B64Of, OpaqueFloat)


def real_type(x: Any) -> Any:
    """the Python type a value stands for (proxies report the type they model)"""
    t = getattr(builtins.type(x), "__vt_type__", None)
    if t is not None:
        return t
    if builtins.type(x) is OpaqueBytes:
        return bytes
    return builtins.type(x)


def vt_type(x: Any, *rest: Any) -> Any:
    """`type` inside cloned namespaces: returns what the names int/str/float/bool denote there."""
    if rest:
        return builtins.type(x, *rest)
    t = real_type(x)
    return _TO_MODEL.get(t, t)


def _unmodel(cls: Any) -> Any:
    if builtins.isinstance(cls, tuple):
        return tuple(_unmodel(k) for k in cls)
    return _TO_REAL.get(cls, cls)


def vt_isinstance(x: Any, cls: Any) -> bool:
    cls = _unmodel(cls)
    t = getattr(builtins.type(x), "__vt_type__", None)
    if t is not None:
        try:
            return builtins.issubclass(t, cls)
        except TypeError:
            return builtins.isinstance(x, cls)
    return builtins.isinstance(x, cls)


def vt_int(x: Any = 0, *rest: Any) -> Any:
    if rest:
        return builtins.int(x, *rest)
    if isinstance(x, SymInt):
        return x
    if isinstance(x, SymBool):
        import z3

        return mkint(z3.If(x.e, 1, 0))
    if isinstance(x, StrOf):
        if isinstance(x.inner, (SymInt, int)):
            return x.inner
        raise ValueError(f"invalid literal for int() with base 10: {x!r}")
    if isinstance(x, B64Of):
        raise ValueError("invalid literal for int() (base64 text)")
    if isinstance(x, FloatOfInt):
        return x.to_int()
    if isinstance(x, OpaqueFloat):
        raise TypeError("vt: int(float) of an opaque float is outside the model")
    return builtins.int(x)


def vt_float(x: Any = 0.0) -> Any:
    if isinstance(x, OpaqueFloat):
        return x
    if isinstance(x, FloatOfInt):
        return x
    if isinstance(x, StrOf):
        if isinstance(x.inner, OpaqueFloat):
            return x.inner
        if isinstance(x.inner, SymInt):
            return FloatOfInt(x.inner)
        return builtins.float(x.inner)
    if isinstance(x, SymInt):
        return FloatOfInt(x)
    if isinstance(x, (SymBool, B64Of)):
        raise TypeError("vt: float() of this proxy is outside the model")
    return builtins.float(x)


def vt_str(x: Any = "", *rest: Any) -> Any:
    if rest:
        return builtins.str(x, *rest)
    if isinstance(x, (StrOf, B64Of)):
        return x
    if isinstance(x, SymInt):
        return StrOf(x)
    if isinstance(x, OpaqueFloat):
        return StrOf(x)
    if isinstance(x, SymBool):
        return "True" if x else "False"
    return builtins.str(x)


def vt_bool(x: Any = False) -> Any:
    if isinstance(x, SymBool):
        return x
    if isinstance(x, SymInt):
        return mkbool(x.e != 0)
    return builtins.bool(x)


class _Base64Model:
    """Stands in for the `base64` module inside cloned namespaces."""

    @staticmethod
    def b64encode(b: Any) -> Any:
        if isinstance(b, OpaqueBytes):
            return _B64Bytes(b)
        return _real_base64.b64encode(b)

    @staticmethod
    def b64decode(s: Any, *a: Any, **kw: Any) -> Any:
        if isinstance(s, B64Of):
            return s.inner
        if isinstance(s, OpaqueBytes):
            # decoding something that was never encoded: result is some other bytes value
            return _real_base64.b64decode(bytes(s), *a, **kw)
        return _real_base64.b64decode(s, *a, **kw)

    def __getattr__(self, name: str) -> Any:
        return getattr(_real_base64, name)


base64_model = _Base64Model()

for _f, _n in ((vt_int, "int"), (vt_float, "float"), (vt_str, "str"), (vt_bool, "bool")):
    _f.__name__ = _n
    _f.__qualname__ = _n
_TO_MODEL = {int: vt_int, float: vt_float, str: vt_str, bool: vt_bool}
_TO_REAL = {v: k for k, v in _TO_MODEL.items()}

BUILTIN_MODELS = {
    "type": vt_type,
    "isinstance": vt_isinstance,
    "int": vt_int,
    "float": vt_float,
    "str": vt_str,
    "bool": vt_bool,
}


def typed_equal(a: Any, b: Any) -> Any:
    """value-and-type equality used by label checks (symbolic aware)."""
    ta, tb = real_type(a), real_type(b)
    if ta is not tb:
        return False
    if isinstance(a, (SymInt, SymBool)) or isinstance(b, (SymInt, SymBool)):
        return a == b
    if isinstance(a, OpaqueFloat) or isinstance(b, OpaqueFloat):
        return a is b
    return a == b
